"""Reference model for C10: the documented PI feedback law of one immersed body.

State per body: X (time integral of the velocity mismatch), V (last mismatch), t.
  evaluate(U, v_body):  V <- U - v_body;   F = k' X + c' V;   X unchanged
  time_step(dt):        X <- X + dt * V;   t <- t + dt
with k' = k * h_max**(d-1), c' = c * h_max**(d-1).  float64 throughout.
"""

from __future__ import annotations

import numpy as np


class PIModel:
    def __init__(self, dim: int, n: int, stiffness: float, damping: float, h_max: float, t0: float = 0.0) -> None:
        self.dim, self.n = dim, n
        scale = float(h_max) ** (dim - 1)
        self.k = float(stiffness) * scale
        self.c = float(damping) * scale
        self.X = np.zeros((dim, n))
        self.V = np.zeros((dim, n))
        self.F = np.zeros((dim, n))
        self.t = float(t0)
        self.steps = 0
        self.x_scale = 0.0  # running bound on |X| and |dt V| for rounding-scaled tolerances

    def evaluate(self, U: np.ndarray, v_body: np.ndarray) -> None:
        self.V = np.asarray(U, dtype=np.float64) - np.asarray(v_body, dtype=np.float64)
        self.F = self.k * self.X + self.c * self.V

    def time_step(self, dt: float) -> None:
        inc = float(dt) * self.V
        self.X = self.X + inc
        self.t = self.t + float(dt)
        self.steps += 1
        self.x_scale = max(self.x_scale, float(np.max(np.abs(self.X), initial=0.0)), float(np.max(np.abs(inc), initial=0.0)))
