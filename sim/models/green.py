"""Reference model for C03: direct summation of the free-space Green's function.

u[i] = h^d * sum_j G(|x_i - x_j|) f[j],   G = -ln r / (2 pi) in 2D, 1 / (4 pi r) in 3D,
self cell: 2D  -(2 ln(h / sqrt(pi)) - 1) / (4 pi)   (mean of G over the disc of cell area)
           3D  1 / (4 pi h)                         (as documented in the source).
O(N^2), float64, no FFT, no padding, no state: trivially history-independent.
"""

from __future__ import annotations

import numpy as np


def kernel_table(shape, h: float) -> np.ndarray:
    """G at every non-negative cell separation (|d_0| < n_0, ...)."""
    dim = len(shape)
    axes = [np.arange(n, dtype=np.float64) for n in shape]
    grids = np.meshgrid(*axes, indexing="ij")
    r2 = sum(g * g for g in grids) * (h * h)
    with np.errstate(divide="ignore"):
        if dim == 2:
            tab = -0.5 * np.log(r2) / (2.0 * np.pi)
            tab[0, 0] = -(2.0 * np.log(h / np.sqrt(np.pi)) - 1.0) / (4.0 * np.pi)
        else:
            tab = 1.0 / (4.0 * np.pi * np.sqrt(r2))
            tab[0, 0, 0] = 1.0 / (4.0 * np.pi * h)
    return tab


class GreenModel:
    def __init__(self, shape, x_range: float, real_t, dense_cap: int = 2000) -> None:
        self.shape = tuple(shape)
        self.dim = len(shape)
        # the documented spacing: x_range / n_x, as representable in the working precision
        self.h = float(real_t(x_range / shape[-1]))
        self.tab = kernel_table(self.shape, self.h)
        self.gmax = float(np.max(np.abs(self.tab)))
        self.vol = self.h**self.dim
        self.op = None
        if int(np.prod(self.shape)) > dense_cap:
            return  # large grid: direct summation over the non-zero source cells only (sparse rhs)
        # dense operator, built once: A[i, j] = tab[|i - j|]
        idx = [np.arange(n) for n in self.shape]
        seps = [np.abs(ix[:, None] - ix[None, :]) for ix in idx]
        if self.dim == 2:
            a = self.tab[seps[0][:, None, :, None], seps[1][None, :, None, :]]
        else:
            a = self.tab[
                seps[0][:, None, None, :, None, None],
                seps[1][None, :, None, None, :, None],
                seps[2][None, None, :, None, None, :],
            ]
        n = int(np.prod(self.shape))
        self.op = np.ascontiguousarray(a.reshape(n, n))

    def solve(self, rhs: np.ndarray) -> np.ndarray:
        if self.op is None:
            f = np.asarray(rhs, dtype=np.float64)
            out = np.zeros(self.shape)
            nz = np.argwhere(f != 0)
            if len(nz) > 64:
                raise ValueError("large-grid model needs a sparse right-hand side")
            for cell in nz:
                seps = [np.abs(np.arange(n) - c) for n, c in zip(self.shape, cell, strict=True)]
                out += f[tuple(cell)] * self.tab[np.ix_(*seps)]
            return out * self.vol
        f = np.asarray(rhs, dtype=np.float64).reshape(-1)
        return (self.op @ f).reshape(self.shape) * self.vol

    def tolerance(self, rhs: np.ndarray, eps: float, factor: float = 128.0) -> float:
        # FFT round-off grows with the logarithm of the (doubled) transform size
        factor = factor * max(1.0, np.log2(float(np.prod(self.shape)) * 2**self.dim) / 10.0)
        return factor * eps * self.vol * self.gmax * float(np.sum(np.abs(np.asarray(rhs, dtype=np.float64))))
