"""Simulated disk for sopht.utils.io: an h5py proxy that forwards to real h5py on a
per-run scratch directory, numbers every durable write and injects faults.

Write kinds numbered: attribute assignment, create_group, create_dataset.
Faults:  crash at write index w  -> SimulatedCrash raised *instead of* write w
         lose write index w      -> write w silently dropped (a lost group loses its subtree)
The FileModel records exactly what the proxy let through - it is the oracle's
idea of what is on disk, independent of sopht's own bookkeeping.
"""

from __future__ import annotations

import numpy as np


class SimulatedCrash(OSError):
    pass


class FileModel:
    """What reached the disk: path -> ndarray copy, plus attributes."""

    def __init__(self) -> None:
        self.datasets: dict = {}
        self.groups: set = set()
        self.attrs: dict = {}  # (path, key) -> value copy
        self.complete = False  # file closed without crash

    def copy(self):
        m = FileModel()
        m.datasets = dict(self.datasets)
        m.groups = set(self.groups)
        m.attrs = dict(self.attrs)
        m.complete = self.complete
        return m


class FaultPlan:
    def __init__(self, crash_at=None, lose=None) -> None:
        self.crash_at = crash_at
        self.lose = lose
        self.count = 0
        self.fired: dict = {}
        self.trace: list = []  # (index, kind, path)

    def next_write(self, kind: str, path: str) -> str:
        """Returns 'do', 'drop'; raises SimulatedCrash."""
        w = self.count
        self.count += 1
        self.trace.append((w, kind, path))
        if self.crash_at is not None and w == self.crash_at:
            self.fired["crash_in_save"] = self.fired.get("crash_in_save", 0) + 1
            raise SimulatedCrash(f"simulated crash at write {w} ({kind} {path})")
        if self.lose is not None and w == self.lose:
            self.fired["lost_write_" + kind] = self.fired.get("lost_write_" + kind, 0) + 1
            return "drop"
        return "do"


class _AttrsProxy:
    def __init__(self, real, path, sim, phantom=False) -> None:
        self._real, self._path, self._sim, self._phantom = real, path, sim, phantom

    def __setitem__(self, key, value) -> None:
        sim = self._sim
        if sim.writable:
            act = sim.plan.next_write("attr", f"{self._path}@{key}")
            if act == "drop" or self._phantom:
                return
            self._real[key] = value
            sim.model.attrs[(self._path, key)] = np.array(value, copy=True)
        else:
            self._real[key] = value

    def __getitem__(self, key):
        return self._real[key]

    def __contains__(self, key) -> bool:
        return key in self._real

    def keys(self):
        return self._real.keys()

    def get(self, key, default=None):
        return self._real.get(key, default)


class _GroupProxy:
    def __init__(self, real, path, sim, phantom=False) -> None:
        self._real, self._path, self._sim, self._phantom = real, path, sim, phantom

    def _child(self, name) -> str:
        return f"{self._path}/{name}" if self._path else name

    @property
    def attrs(self):
        return _AttrsProxy(None if self._phantom else self._real.attrs, self._path, self._sim, self._phantom)

    def create_group(self, name):
        sim = self._sim
        path = self._child(name)
        act = sim.plan.next_write("group", path)
        if act == "drop" or self._phantom:
            return _GroupProxy(None, path, sim, phantom=True)
        g = self._real.create_group(name)
        sim.model.groups.add(path)
        return _GroupProxy(g, path, sim)

    def create_dataset(self, name, data=None, **kwargs):
        sim = self._sim
        path = self._child(name)
        act = sim.plan.next_write("dataset", path)
        if act == "drop" or self._phantom:
            return None
        d = self._real.create_dataset(name, data=data, **kwargs)
        sim.model.datasets[path] = np.array(data, copy=True)
        return d

    def __getitem__(self, name):
        item = self._real[name]
        import h5py

        if isinstance(item, h5py.Group):
            return _GroupProxy(item, self._child(name), self._sim)
        return item

    def __contains__(self, name) -> bool:
        return name in self._real

    def keys(self):
        return self._real.keys()

    def visit(self, fn):
        return self._real.visit(fn)

    def visititems(self, fn):
        return self._real.visititems(fn)


class _FileProxy(_GroupProxy):
    def __init__(self, sim, name, mode="r", **kwargs) -> None:
        import h5py

        self._name = str(name)
        self._mode = mode
        sim.opens.append((self._name, mode))
        writable = mode not in ("r",)
        sim.writable = writable
        if writable:
            # 'w' truncates: whatever the file held before is gone
            sim.model = FileModel()
            sim.models[self._name] = sim.model
            sim.plan = sim.next_plan or FaultPlan()
            sim.next_plan = None
            sim.last_plan = sim.plan
        real = h5py.File(name, mode, **kwargs)
        super().__init__(real, "", sim)

    def __enter__(self):
        return self

    def __exit__(self, exc_type, exc, tb):
        self._real.close()
        if self._sim.writable and exc_type is None:
            self._sim.model.complete = True
        self._sim.writable = False
        return False

    def close(self) -> None:
        self._real.close()


class H5Sim:
    """Stands in for the `h5py` module inside sopht.utils.io."""

    def __init__(self) -> None:
        self.models: dict = {}
        self.model = FileModel()
        self.plan = FaultPlan()
        self.next_plan = None
        self.last_plan = None
        self.writable = False
        self.opens: list = []

    def File(self, name, mode="r", **kwargs):  # noqa: N802 (h5py API)
        return _FileProxy(self, name, mode, **kwargs)

    def arm(self, plan: FaultPlan) -> None:
        self.next_plan = plan

    def __getattr__(self, item):
        import h5py

        return getattr(h5py, item)


def install(io_module) -> H5Sim:
    sim = H5Sim()
    io_module.h5py = sim
    return sim


def uninstall(io_module) -> None:
    import h5py

    io_module.h5py = h5py
