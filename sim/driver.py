"""Driver: seeded search over programs, fork-per-batch isolation, watchdogs,
shrinking, replay files, evidence, exit codes.

Exit codes: 0 property held on everything explored (KNOWN-FINDING lines allowed)
            1 VIOLATION (unlisted, survived minimisation and fresh-process replay)
            2 HARNESS-ERROR (timeouts, exceptions in harness glue) - never 0.
"""

from __future__ import annotations

import argparse
import copy
import faulthandler
import json
import os
import pickle
import shutil
import signal
import subprocess
import sys
import tempfile
import time
import traceback

from . import oplog, prng
from .oplog import Result

VERIF_ROOT = oplog.VERIF_ROOT


class HarnessError(Exception):
    pass


class Check:
    """Interface every property check implements."""

    prop_id = "?"
    level = "exploration"
    technique = "deterministic simulation"
    rule = ""
    assumptions: list = []
    components: dict = {"real": [], "stub": []}
    required_probes: list = []
    tiers = {
        "quick": {"runs": 100, "batch": 10, "timeout": 120},
        "thorough": {"runs": 2000, "batch": 10, "timeout": 300},
    }
    selftest_runs = {"quick": 12, "thorough": 200}

    def warmup(self, tier: str) -> None:  # build kernels once in the parent
        pass

    def draw(self, rng, tier: str, run: int) -> dict:
        raise NotImplementedError

    def execute(self, program: dict, res: Result) -> None:
        raise NotImplementedError

    def shrink_lists(self, program: dict) -> list:
        """Keys of `program` holding op/fault lists for ddmin."""
        return ["ops"]

    def simplify(self, program: dict):
        """Yield simpler variants of `program` (argument simplifiers)."""
        return ()

    def repair(self, program: dict) -> dict:
        """Make an op list edited by the shrinker well-formed again."""
        return program

    def distinct_key(self, program: dict):
        return oplog.dumps(program)

    def sample(self, program: dict):
        return program


# ------------------------------------------------------------------ scratch


_scratch_root = None


def scratch_root() -> str:
    global _scratch_root
    if _scratch_root is None:
        base = os.environ.get("VERIF_SCRATCH")
        if base is None:
            base = "/dev/shm" if os.path.isdir("/dev/shm") and os.access("/dev/shm", os.W_OK) else None
        _scratch_root = tempfile.mkdtemp(prefix="verif-sopht-", dir=base)
    return _scratch_root


def cleanup_scratch() -> None:
    global _scratch_root
    if _scratch_root and os.path.isdir(_scratch_root):
        shutil.rmtree(_scratch_root, ignore_errors=True)
    _scratch_root = None


def run_dir(tag: str) -> str:
    d = os.path.join(scratch_root(), tag)
    os.makedirs(d, exist_ok=True)
    return d


# ------------------------------------------------------------------ fork pool


def fork_map(fn, tasks: list, workers: int, timeout_s: float):
    """Run fn(task) for each task in its own forked child.

    Yields (index, status, payload): status 'ok' (payload = fn result),
    'error' (payload = traceback text) or 'timeout'.  A child never shares
    state with another child; the parent never executes fn.
    """
    root = run_dir("pool")
    pending = list(enumerate(tasks))
    pending.reverse()
    live: dict = {}
    while pending or live:
        while pending and len(live) < workers:
            idx, task = pending.pop()
            out = os.path.join(root, f"{os.getpid()}-{idx}.pkl")
            sys.stdout.flush()
            sys.stderr.flush()
            pid = os.fork()
            if pid == 0:
                code = 0
                try:
                    # NB: faulthandler.dump_traceback_later deadlocks in a forked child whose parent
                    # had a watchdog armed (nested forks in C18); SIGALRM + register is fork-safe.
                    faulthandler.enable()
                    faulthandler.register(signal.SIGALRM, all_threads=True)
                    signal.alarm(max(1, int(timeout_s)))
                    try:
                        payload = ("ok", fn(task))
                    except BaseException:  # noqa: BLE001
                        payload = ("error", traceback.format_exc())
                    with open(out + ".tmp", "wb") as f:
                        pickle.dump(payload, f)
                    os.replace(out + ".tmp", out)
                except BaseException:  # noqa: BLE001
                    code = 3
                finally:
                    sys.stdout.flush()
                    sys.stderr.flush()
                    os._exit(code)
            live[pid] = (idx, out, time.monotonic())
        done_any = False
        for pid in list(live):
            idx, out, t0 = live[pid]
            wpid, status = os.waitpid(pid, os.WNOHANG)
            if wpid == 0:
                if time.monotonic() - t0 > timeout_s + 5:
                    try:
                        os.kill(pid, 9)
                    except ProcessLookupError:
                        pass
                    os.waitpid(pid, 0)
                    del live[pid]
                    done_any = True
                    yield idx, "timeout", f"child {pid} exceeded {timeout_s}s"
                continue
            del live[pid]
            done_any = True
            if os.path.exists(out):
                with open(out, "rb") as f:
                    st, payload = pickle.load(f)
                os.unlink(out)
                yield idx, st, payload
            else:
                kind = "timeout" if os.WIFEXITED(status) and os.WEXITSTATUS(status) == 1 else "error"
                yield idx, kind, f"child {pid} died with status {status} and wrote no result"
        if not done_any:
            time.sleep(0.002)


# ------------------------------------------------------------------ one run


def execute_program(check: Check, program: dict) -> dict:
    from . import seams

    res = Result()
    res.log.event("program", p=program)
    before = dict(seams.STATS)
    # the recorded program must stay the drawn one even if the code under test mutates what it is handed
    check.execute(copy.deepcopy(program), res)
    packed = res.pack()
    packed["seam_stats"] = {k: seams.STATS[k] - before.get(k, 0) for k in seams.STATS}
    return packed


def _run_batch(args):
    check, seed, tier, indices = args
    out = []
    done = []
    for run in indices:
        rng = prng.run_rng(seed, check.prop_id, run)
        program = check.draw(rng, tier, run)
        program["_run"] = run
        program["_seed"] = seed
        packed = execute_program(check, program)
        packed["run"] = run
        packed["program"] = program
        packed["batch_prefix"] = list(done)  # programs this process executed before (state may leak across objects)
        done.append(program)
        out.append(packed)
    return out


def run_indices(check: Check, seed: int, tier: str, indices: list, workers: int, batch: int, timeout: float):
    """Execute run indices; returns (results by run, harness_errors)."""
    batches = [indices[i : i + batch] for i in range(0, len(indices), batch)]
    tasks = [(check, seed, tier, b) for b in batches]
    results: dict = {}
    errors: list = []
    for bi, st, payload in fork_map(_run_batch, tasks, workers, timeout):
        if st == "ok":
            for r in payload:
                results[r["run"]] = r
        else:
            errors.append({"runs": batches[bi], "status": st, "detail": payload})
    return results, errors


# ------------------------------------------------------------------ shrinking


def _has_target(check: Check, program: dict, target_oracle: str, findings: list):
    packed = execute_program(check, program)
    for v in packed["violations"]:
        if v["oracle"] == target_oracle and oplog.match_known(check.prop_id, v, findings) is None:
            return v
    return None


def _test_candidates(check, cands, target_oracle, findings, workers, timeout):
    """Evaluate candidate programs in forked children; return first (by order) that still fails."""
    if not cands:
        return None
    tasks = [(check, c, target_oracle, findings) for c in cands]
    hits = {}
    for i, st, payload in fork_map(_cand_worker, tasks, workers, timeout):
        if st == "ok" and payload is not None:
            hits[i] = payload
    if not hits:
        return None
    i = min(hits)
    return cands[i], hits[i]


def _cand_worker(args):
    check, cand, target_oracle, findings = args
    try:
        return _has_target(check, cand, target_oracle, findings)
    except Exception:  # noqa: BLE001  a malformed candidate is simply not a reproducer
        return None


def shrink(check: Check, program: dict, violation: dict, findings: list, workers: int, timeout: float, budget_s: float = 120.0):
    """ddmin over op/fault lists, then argument simplifiers, keeping the oracle class."""
    t0 = time.monotonic()
    target = violation["oracle"]
    best = copy.deepcopy(program)
    best_v = violation
    steps = 0

    def try_cands(cands):
        nonlocal best, best_v, steps
        cands = [check.repair(c) for c in cands]
        steps += len(cands)
        hit = _test_candidates(check, cands, target, findings, workers, timeout)
        if hit is not None:
            best, best_v = hit
            return True
        return False

    changed = True
    while changed and time.monotonic() - t0 < budget_s:
        changed = False
        for key in check.shrink_lists(best):
            n = 2
            while len(best.get(key, [])) >= 1 and time.monotonic() - t0 < budget_s:
                lst = best[key]
                chunk = max(1, len(lst) // n)
                cands = []
                for start in range(0, len(lst), chunk):
                    c = copy.deepcopy(best)
                    c[key] = lst[:start] + lst[start + chunk :]
                    cands.append(c)
                if try_cands(cands):
                    changed = True
                    n = max(n - 1, 2)
                elif chunk == 1:
                    break
                else:
                    n = min(len(lst), n * 2)
        while time.monotonic() - t0 < budget_s:
            cands = list(check.simplify(best))
            if not cands or not try_cands(cands):
                break
            changed = True
    return best, best_v, steps


# ------------------------------------------------------------------ replay files


def write_replay(check: Check, program: dict, violation: dict, digest: str, minimised: bool, original=None, prefix=None) -> str:
    d = os.path.join(VERIF_ROOT, "replays")
    os.makedirs(d, exist_ok=True)
    name = f"{check.prop_id}-{program.get('_seed', 0)}-{program.get('_run', 0)}.json"
    path = os.path.join(d, name)
    with open(path, "w") as f:
        json.dump(
            {
                "property": check.prop_id,
                "program": oplog._canon(program),
                "first_violation": violation,
                "digest": digest,
                "minimised": minimised,
                "original_program": oplog._canon(original) if original is not None else None,
                "same_process_prefix": oplog._canon(prefix) if prefix else [],
            },
            f,
            indent=1,
            sort_keys=True,
        )
    return path


def replay_file(check: Check, path: str) -> int:
    with open(path) as f:
        data = json.load(f)
    program = data["program"]
    findings = oplog.load_known_findings()
    check.warmup("replay")
    for pre in data.get("same_process_prefix") or []:
        # programs the failing process had executed before: the violation needs state they left behind
        execute_program(check, pre)
    packed = execute_program(check, program)
    bad = [v for v in packed["violations"] if oplog.match_known(check.prop_id, v, findings) is None]
    for v in packed["violations"]:
        print(f"  violation oracle={v['oracle']} sig={oplog.dumps(v['sig'])} :: {v['detail']}")
    print(f"replay digest={packed['digest']} recorded={data.get('digest')}")
    if bad:
        print(f"VIOLATION property={check.prop_id} replay={path}")
        return 1
    print("replay: no unlisted violation")
    return 0


# ------------------------------------------------------------------ selftest (determinism)


def selftest(check: Check, seed: int, tier: str, n: int, workers: int) -> list:
    """Same run indices, different worker counts / batch sizes / interpreters: digests must agree."""
    cfg = check.tiers[tier]
    idx = list(range(n))
    problems = []
    base, errs = run_indices(check, seed, tier, idx, workers, cfg["batch"], cfg["timeout"])
    if errs:
        problems.append(f"selftest pass A harness errors: {errs[:2]}")
    other, errs = run_indices(check, seed, tier, idx, max(1, workers // 4), 1, cfg["timeout"])
    if errs:
        problems.append(f"selftest pass B harness errors: {errs[:2]}")
    for r in idx:
        a, b = base.get(r), other.get(r)
        if a is None or b is None:
            continue
        if a["digest"] != b["digest"]:
            problems.append(f"run {r}: digest differs between batchings/worker counts")
    # fresh interpreter, different PYTHONHASHSEED
    sub = idx[: max(2, n // 4)]
    env = dict(os.environ)
    env["VERIF_HASHSEED"] = "12345"
    env["PYTHONHASHSEED"] = "12345"
    cmd = [sys.executable, os.path.join(VERIF_ROOT, "bin", "check"), check.prop_id, "--digests", ",".join(map(str, sub)), "--seed", str(seed), "--tier", tier]
    try:
        p = subprocess.run(cmd, env=env, capture_output=True, text=True, timeout=cfg["timeout"] * 4)
        got = {}
        for line in p.stdout.splitlines():
            if line.startswith("DIGEST "):
                _, r, d = line.split()
                got[int(r)] = d
        for r in sub:
            if r in base and got.get(r) != base[r]["digest"]:
                problems.append(f"run {r}: digest differs in fresh interpreter with PYTHONHASHSEED=12345 ({got.get(r)} vs {base[r]['digest']})")
    except subprocess.TimeoutExpired:
        problems.append("selftest fresh-interpreter pass timed out")
    return problems


# ------------------------------------------------------------------ main loop


def write_evidence(check: Check, tier: str, seed: int, agg: dict, wall: float, violations: int) -> str:
    d = os.path.join(VERIF_ROOT, "evidence")
    os.makedirs(d, exist_ok=True)
    path = os.path.join(d, f"{check.prop_id}.json")
    runs = agg["runs"]
    ev = {
        "property_id": check.prop_id,
        "tier": tier,
        "seed": seed,
        "level": check.level,
        "wall_s": round(wall, 3),
        "violations": violations,
        "assumptions": list(check.assumptions),
        "coverage": {
            "evaluations": runs,
            "distinct_nontrivial": len(agg["distinct"]),
            "rule": check.rule,
            "samples": agg["samples"][:3],
            "exhaustive": False,
            "technique": check.technique,
            "runs": runs,
            "seeds": {"VERIF_SEED": seed, "run_indices": [0, max(0, runs - 1)], "derivation": "random.Random(f'{seed}/{property}/{run}')"},
            "runs_per_hour": round(runs / max(wall, 1e-9) * 3600.0, 1),
            "simulated": agg["sim"],
            "faults_fired": agg["faults"],
            "reach_probes": agg["probes"],
            "probes_stuck_at_zero": [p for p in check.required_probes if agg["probes"].get(p, 0) == 0],
            "distinct_states": len(agg["states"]),
            "distinct_run_digests": len(agg["digests"]),
            "events_logged": agg["events"],
            "harness_errors": agg["harness_errors"],
            "known_findings_seen": sorted(agg["known_seen"]),
            "selftest": agg.get("selftest", {}),
            "components": check.components,
            "seam_stats": agg.get("seam_stats", {}),
        },
    }
    ev["coverage"].update(agg.get("extra", {}))
    tmp = path + ".tmp"
    with open(tmp, "w") as f:
        json.dump(oplog._canon(ev), f, indent=1, sort_keys=True)
    os.replace(tmp, path)
    return path


def main(check: Check, argv=None) -> int:
    ap = argparse.ArgumentParser(prog=f"check {check.prop_id}")
    ap.add_argument("--tier", default=os.environ.get("VERIF_TIER", "quick"), choices=["quick", "thorough"])
    ap.add_argument("--seed", type=int, default=None)
    ap.add_argument("--runs", type=int, default=None)
    ap.add_argument("--start", type=int, default=0)
    ap.add_argument("--workers", type=int, default=int(os.environ.get("VERIF_WORKERS", os.cpu_count() or 4)))
    ap.add_argument("--replay", default=None)
    ap.add_argument("--selftest", action="store_true", help="determinism self-test only")
    ap.add_argument("--no-selftest", action="store_true")
    ap.add_argument("--digests", default=None, help="internal: print digests of run indices")
    ap.add_argument("--budget", type=float, default=float(os.environ.get("VERIF_BUDGET_S", "0")), help="thorough: keep drawing new runs until this many seconds elapsed")
    ap.add_argument("--no-evidence", action="store_true")
    ap.add_argument("--warm", action="store_true", help="populate on-disk JIT caches for this check and exit")
    args = ap.parse_args(argv)

    seed = args.seed if args.seed is not None else int(os.environ.get("VERIF_SEED", "20260925"))
    tier = args.tier
    t_start = time.monotonic()
    try:
        if args.replay:
            return replay_file(check, args.replay)
        cfg = check.tiers[tier]
        check.warmup(tier)
        if args.warm:
            bad = check.warm_all(args.workers) if hasattr(check, "warm_all") else []
            for b in bad[:3]:
                print(f"HARNESS-ERROR: warm-up failed: {str(b)[-3000:]}")
            return 2 if bad else 0
        if args.digests:
            idx = [int(x) for x in args.digests.split(",") if x]
            results, errs = run_indices(check, seed, tier, idx, args.workers, 1, cfg["timeout"])
            for r in idx:
                if r in results:
                    print(f"DIGEST {r} {results[r]['digest']}")
            return 0 if not errs else 2

        if hasattr(check, "warm_if_stale") and not args.replay:
            # an edited source file invalidates the JIT caches: re-warm them in parallel once instead of letting
            # every worker recompile the same kernels inside its run timeout
            check.warm_if_stale(args.workers)
        findings = oplog.load_known_findings()
        agg = {
            "runs": 0, "distinct": set(), "samples": [], "sim": {}, "faults": {}, "probes": {},
            "states": set(), "digests": set(), "events": 0, "harness_errors": 0, "known_seen": set(),
        }
        harness_msgs: list = []

        # determinism self-test gates the search
        n_self = check.selftest_runs[tier]
        if args.selftest or not args.no_selftest:
            problems = selftest(check, seed, tier, n_self, args.workers)
            agg["selftest"] = {"runs_compared": n_self, "passes": ["batched/16 workers", "unbatched/4 workers", "fresh interpreter PYTHONHASHSEED=12345"], "problems": problems}
            if problems:
                for p in problems:
                    print(f"HARNESS-ERROR selftest: {p}")
                return 2
            if args.selftest:
                print(f"selftest ok: {n_self} run indices reproduced across batchings, worker counts and interpreters")
                return 0

        total = args.runs if args.runs is not None else cfg["runs"]
        violating: list = []
        n_unknown = 0
        next_run = args.start
        end_run = args.start + total
        wave = max(cfg["batch"] * args.workers * 2, 1)
        if args.budget and args.runs is None:
            end_run = args.start  # budget mode: keep drawing new run indices until the budget is used
        while True:
            if next_run >= end_run:
                if args.budget and time.monotonic() - t_start < args.budget:
                    end_run += wave
                else:
                    break
            idx = list(range(next_run, min(end_run, next_run + wave)))
            next_run = idx[-1] + 1
            results, errs = run_indices(check, seed, tier, idx, args.workers, cfg["batch"], cfg["timeout"])
            for e in errs:
                agg["harness_errors"] += 1
                harness_msgs.append(e)
            for r in sorted(results):
                p = results[r]
                agg["runs"] += 1
                agg["events"] += p["events"]
                agg["digests"].add(p["digest"])
                agg["states"].update(p["states"])
                for k, v in p["faults"].items():
                    agg["faults"][k] = agg["faults"].get(k, 0) + v
                for k, v in p["probes"].items():
                    agg["probes"][k] = agg["probes"].get(k, 0) + v
                for k, v in p.get("seam_stats", {}).items():
                    agg.setdefault("seam_stats", {})
                    agg["seam_stats"][k] = agg["seam_stats"].get(k, 0) + v
                for k, v in p["sim"].items():
                    if k.startswith("max_"):
                        agg["sim"][k] = max(agg["sim"].get(k, 0), v)
                    else:
                        agg["sim"][k] = agg["sim"].get(k, 0) + v
                if p["nontrivial"]:
                    agg["distinct"].add(check.distinct_key(p["program"]))
                if len(agg["samples"]) < 3 and p["nontrivial"]:
                    agg["samples"].append(check.sample(p["program"]))
                if p["violations"]:
                    violating.append(p)
                    if any(oplog.match_known(check.prop_id, v, findings) is None for v in p["violations"]):
                        n_unknown += 1
            if n_unknown >= 8 or harness_msgs:
                break

        # ---- triage violations
        exit_code = 0
        reported = 0
        seen_sigs = set()
        for p in violating:
            unknown = []
            for v in p["violations"]:
                e = oplog.match_known(check.prop_id, v, findings)
                if e is not None:
                    if e["id"] not in agg["known_seen"]:
                        agg["known_seen"].add(e["id"])
                        print(f"KNOWN-FINDING: property={check.prop_id} {e['id']}: {e['summary']}")
                else:
                    unknown.append(v)
            if not unknown:
                continue
            v0 = unknown[0]
            key = (v0["oracle"], oplog.dumps(v0["sig"]))
            if key in seen_sigs or reported >= 3:
                continue
            seen_sigs.add(key)
            print(f"violation in run {p['run']}: oracle={v0['oracle']} {v0['detail']}")
            small, small_v, steps = shrink(check, p["program"], v0, findings, args.workers, cfg["timeout"])
            print(f"  minimised in {steps} candidate executions: {oplog.dumps(check.sample(small))[:600]}")
            small_packed = execute_in_child(check, small, cfg["timeout"])
            digest = small_packed["digest"] if small_packed else ""
            path = write_replay(check, small, small_v, digest, True, original=p["program"])
            # fresh-process replay must reproduce
            rp = subprocess.run([sys.executable, os.path.join(VERIF_ROOT, "bin", "check"), check.prop_id, "--replay", path], capture_output=True, text=True, timeout=cfg["timeout"] * 4)
            if rp.returncode == 1 and f"VIOLATION property={check.prop_id}" in rp.stdout:
                print(f"VIOLATION property={check.prop_id} replay={path}")
                reported += 1
                exit_code = 1
                continue
            if p.get("batch_prefix"):
                # not reproducible alone: replay together with what the same process executed before
                path = write_replay(check, p["program"], v0, p["digest"], False, prefix=p["batch_prefix"])
                rp = subprocess.run([sys.executable, os.path.join(VERIF_ROOT, "bin", "check"), check.prop_id, "--replay", path], capture_output=True, text=True, timeout=cfg["timeout"] * 4)
                if rp.returncode == 1 and f"VIOLATION property={check.prop_id}" in rp.stdout:
                    print(f"  (reproduces only after the {len(p['batch_prefix'])} programs the same process ran before: state shared across objects)")
                    print(f"VIOLATION property={check.prop_id} replay={path}")
                    reported += 1
                    exit_code = 1
                    continue
            if True:
                print(f"HARNESS-ERROR: violation in run {p['run']} did not reproduce in a fresh process (rc={rp.returncode}); replay file {path}\n{rp.stdout[-2000:]}\n{rp.stderr[-2000:]}")
                exit_code = max(exit_code, 2) if exit_code != 1 else 1
                harness_msgs.append({"status": "non-reproducible", "detail": path})

        for e in harness_msgs[:5]:
            print(f"HARNESS-ERROR: {e.get('status')} runs={e.get('runs')} :: {str(e.get('detail'))[-3000:]}")
        if harness_msgs and exit_code == 0:
            exit_code = 2
        stuck = [pr for pr in check.required_probes if agg["probes"].get(pr, 0) == 0]
        if stuck:
            print(f"note: reach probes stuck at zero this run: {stuck}")
        from . import seams

        agg.setdefault("seam_stats", {})
        agg["extra"] = getattr(check, "extra_evidence", lambda a: {})(agg)
        wall = time.monotonic() - t_start
        if not args.no_evidence and agg["runs"] > 0:
            write_evidence(check, tier, seed, agg, wall, reported)
        print(
            f"{check.prop_id} tier={tier} seed={seed} runs={agg['runs']} distinct={len(agg['distinct'])} "
            f"states={len(agg['states'])} faults={sum(agg['faults'].values())} wall={wall:.1f}s exit={exit_code}"
        )
        return exit_code
    except HarnessError as e:
        print(f"HARNESS-ERROR: {e}")
        return 2
    except Exception:  # noqa: BLE001
        print("HARNESS-ERROR: unexpected exception in driver")
        traceback.print_exc()
        return 2
    finally:
        cleanup_scratch()


def execute_in_child(check: Check, program: dict, timeout: float):
    for _, st, payload in fork_map(lambda p: execute_program(check, p), [program], 1, timeout):
        if st == "ok":
            return payload
    return None
