"""Event log, run digest, replay files and known-findings matching.

Logging never draws from a PRNG and never reads a clock.
"""

from __future__ import annotations

import hashlib
import json
import os

import numpy as np

VERIF_ROOT = os.path.dirname(os.path.dirname(os.path.abspath(__file__)))


def _canon(obj):
    if isinstance(obj, (np.floating,)):
        return float(obj)
    if isinstance(obj, (np.integer,)):
        return int(obj)
    if isinstance(obj, (np.bool_,)):
        return bool(obj)
    if isinstance(obj, np.ndarray):
        return obj.tolist()
    if isinstance(obj, (tuple, list)):
        return [_canon(x) for x in obj]
    if isinstance(obj, dict):
        return {str(k): _canon(v) for k, v in sorted(obj.items(), key=lambda kv: str(kv[0]))}
    if isinstance(obj, type):
        return obj.__name__
    return obj


def dumps(obj) -> str:
    return json.dumps(_canon(obj), sort_keys=True, separators=(",", ":"))


class EventLog:
    """Hash-chained log of events and raw array bytes: the run digest."""

    def __init__(self, keep: int = 400) -> None:
        self._h = hashlib.sha256()
        self.n = 0
        self.keep = keep
        self.tail: list = []
        self.states: set = set()

    def event(self, kind_: str, **fields) -> None:
        s = dumps({"k": kind_, **fields})
        self._h.update(s.encode())
        self.n += 1
        if len(self.tail) < self.keep:
            self.tail.append(s)

    def array(self, name: str, arr) -> None:
        a = np.ascontiguousarray(arr)
        self._h.update(name.encode())
        self._h.update(str(a.dtype).encode())
        self._h.update(str(a.shape).encode())
        self._h.update(a.tobytes())

    def state(self, *parts) -> None:
        """Record a distinct abstract state (for the 'states reached' measure)."""
        h = hashlib.sha256()
        for p in parts:
            if isinstance(p, np.ndarray):
                h.update(np.ascontiguousarray(p).tobytes())
            else:
                h.update(dumps(p).encode())
        d = h.hexdigest()[:16]
        self.states.add(d)
        self._h.update(d.encode())

    def digest(self) -> str:
        return self._h.hexdigest()


class Result:
    """What one simulated run reports back to the driver."""

    def __init__(self) -> None:
        self.violations: list = []
        self.faults: dict = {}
        self.probes: dict = {}
        self.sim: dict = {}
        self.nontrivial = False
        self.log = EventLog()

    def fault(self, kind: str, n: int = 1) -> None:
        self.faults[kind] = self.faults.get(kind, 0) + n

    def probe(self, name: str, n: int = 1) -> None:
        self.probes[name] = self.probes.get(name, 0) + n

    def add_sim(self, key: str, x) -> None:
        self.sim[key] = self.sim.get(key, 0) + x

    def violation(self, oracle: str, sig: dict, detail: str, op_index: int | None = None) -> None:
        self.violations.append(
            {"oracle": oracle, "sig": _canon(sig), "detail": detail, "op_index": op_index}
        )
        self.log.event("VIOLATION", oracle=oracle, sig=sig)

    def pack(self) -> dict:
        return {
            "violations": self.violations,
            "faults": self.faults,
            "probes": self.probes,
            "sim": self.sim,
            "nontrivial": self.nontrivial,
            "digest": self.log.digest(),
            "states": sorted(self.log.states),
            "events": self.log.n,
        }


# ---------------------------------------------------------------- known findings


def load_known_findings() -> list:
    p = os.path.join(VERIF_ROOT, "known_findings.json")
    if not os.path.exists(p):
        return []
    with open(p) as f:
        data = json.load(f)
    return data.get("findings", [])


def match_known(prop: str, violation: dict, findings: list):
    """Return the *open* known-finding entry matching this violation, if any.

    An entry identifies one failing input / call site: same oracle and every
    key of entry['match'] present with an equal value in the violation
    signature. Entries with status 'fixed' suppress nothing.
    """
    for e in findings:
        if e.get("property") != prop or e.get("status") != "known":
            continue
        if e.get("oracle") != violation["oracle"]:
            continue
        sig = violation.get("sig", {})
        if all(sig.get(k) == v for k, v in e.get("match", {}).items()):
            return e
    return None
