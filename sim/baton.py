"""Baton-passing scheduler: real caller threads, released one at a time at intercepted seam points.

Each task runs in its own thread but only the thread holding the baton executes; at every seam
point (a proxied call) the running thread hands the baton back and the seeded scheduler decides
who continues.  One seed = one interleaving; the schedule is recorded for replay.
"""

from __future__ import annotations

import random
import threading


class Baton:
    def __init__(self, n_tasks: int, seed: int) -> None:
        self.cv = threading.Condition()
        self.turn = None  # task id allowed to run, or None (scheduler's turn)
        self.parked = [False] * n_tasks
        self.done = [False] * n_tasks
        self.errors: list = [None] * n_tasks
        self.rng = random.Random(seed)
        self.trace: list = []

    # called from task threads -------------------------------------------------
    def seam(self, tid: int, label: str = "") -> None:
        with self.cv:
            self.parked[tid] = True
            self.turn = None
            self.cv.notify_all()
            while self.turn != tid:
                self.cv.wait()
            self.parked[tid] = False

    def _finish(self, tid: int) -> None:
        with self.cv:
            self.done[tid] = True
            self.turn = None
            self.cv.notify_all()

    # scheduler ----------------------------------------------------------------
    def run(self, tasks) -> list:
        threads = []
        for tid, fn in enumerate(tasks):

            def body(tid=tid, fn=fn):
                self.seam(tid, "start")
                try:
                    fn()
                except BaseException as e:  # noqa: BLE001
                    self.errors[tid] = e
                finally:
                    self._finish(tid)

            t = threading.Thread(target=body, daemon=True)
            threads.append(t)
            t.start()
        with self.cv:
            while True:
                # wait until every live task is parked at a seam
                while not all(self.done[i] or self.parked[i] for i in range(len(tasks))) or self.turn is not None:
                    self.cv.wait(timeout=60)
                live = [i for i in range(len(tasks)) if not self.done[i]]
                if not live:
                    break
                nxt = live[self.rng.randrange(len(live))]
                self.trace.append(nxt)
                self.turn = nxt
                self.cv.notify_all()
                while self.turn is not None:
                    self.cv.wait(timeout=60)
        for t in threads:
            t.join(timeout=60)
        return self.trace


def wrap_callables(obj, baton: Baton, tid: int):
    """Replace every callable instance attribute of obj by a proxy that yields at a seam first.
    Returns a function that undoes the wrapping."""
    saved = {}
    for name, val in list(vars(obj).items()):
        if callable(val):
            saved[name] = val

            def proxy(*a, _orig=val, _name=name, **k):
                baton.seam(tid, _name)
                return _orig(*a, **k)

            setattr(obj, name, proxy)

    def undo():
        for name, val in saved.items():
            setattr(obj, name, val)

    return undo
