"""Coupled flow-body system under simulation (used by C18 and C15).

Everything here is real SophT / PyElastica code wired the way the examples and
the restart test wire it; the harness only decides configuration, the op
sequence (dt, queries) and where the process "dies".
"""

from __future__ import annotations

import os

import numpy as np

from . import prng

FLOWS = {
    2: [{"shape": [16, 20], "x_range": 1.0}, {"shape": [20, 16], "x_range": 0.8}],
    3: [{"shape": [10, 10, 12], "x_range": 1.2}, {"shape": [10, 8, 12], "x_range": 1.2}, {"shape": [10, 12, 10], "x_range": 1.0}],  # the last one is taller in y than in x
}
BODY_KINDS = {
    2: ["cylinder_dyn", "cylinder_presc", "rod_nodal", "rod_elem", "rod_edge"],
    3: ["sphere_dyn", "sphere_presc", "plane_presc", "pipe_presc", "rod_surface", "rod_surface_cap", "rod_nodal"],
}
DYNAMIC = {"cylinder_dyn", "sphere_dyn", "rod_nodal", "rod_elem", "rod_edge", "rod_surface", "rod_surface_cap"}


def real_t_of(precision):
    return np.float32 if precision == "single" else np.float64


class Body:
    pass


class System:
    """One coupled simulation: flow simulator + bodies + interactions + IO objects."""

    def __init__(self, config: dict, num_threads: int = 1) -> None:
        import elastica as ea
        import sopht.simulator as sps
        import sopht.utils as spu

        self.config = config
        self.dim = dim = config["dim"]
        self.real_t = real_t = real_t_of(config["precision"])
        fl = FLOWS[dim][config["flow"] % len(FLOWS[dim])]
        shape = tuple(fl["shape"])
        self.shape = shape
        with_forcing = bool(config["bodies"]) or config.get("with_forcing", False)
        self.free_stream = None if config.get("free_stream") is None else np.array(config["free_stream"], dtype=np.float64)
        self.free_stream0 = None if self.free_stream is None else self.free_stream.copy()
        kwargs = dict(
            grid_size=shape, x_range=fl["x_range"], kinematic_viscosity=config["nu"], cfl=config.get("cfl", 0.1), real_t=real_t, num_threads=num_threads,
            time=float(config.get("time0", 0.0)),
            with_forcing=with_forcing, with_free_stream_flow=self.free_stream is not None, flow_density=config.get("rho", 1.0),
            penalty_zone_width=config.get("zone", 2),
        )
        if dim == 2:
            self.flow = sps.UnboundedNavierStokesFlowSimulator2D(**kwargs)
        else:
            flt = config.get("filter")
            if flt:
                kwargs.update(filter_vorticity=True, filter_setting_dict=flt)  # the caller's own dict object, reused for every construction
            kwargs["poisson_solver_type"] = {"greens": "greens_function_convolution", "fastdiag": "fast_diagonalisation"}[config.get("poisson", "greens")]
            self.flow = sps.UnboundedNavierStokesFlowSimulator3D(**kwargs)
        flow = self.flow
        dx = float(flow.dx)
        self.lengths = [dx * shape[dim - 1 - ax] for ax in range(dim)]
        # initial vorticity: smooth random blob, zero near the boundary
        g = prng.np_rng(config.get("init_sub", 0), "vort")
        w = g.standard_normal(flow.vorticity_field.shape)
        mask = np.ones(shape)
        for ax in range(dim):
            idx = np.arange(shape[ax])
            prof = np.clip(np.minimum(idx, shape[ax] - 1 - idx) / 4.0, 0, 1)
            mask = mask * prof.reshape([-1 if a == ax else 1 for a in range(dim)])
        flow.vorticity_field[...] = (config.get("vort_amp", 2.0) * w * mask).astype(real_t)

        # ---------------- bodies
        class Sim(ea.BaseSystemCollection, ea.Constraints, ea.Forcing, ea.Damping):
            pass

        self.collection = Sim()
        self.bodies = []
        nb = len(config["bodies"])
        for bi, spec in enumerate(config["bodies"]):
            self.bodies.append(self._make_body(spec, bi, nb, ea, sps, dx, flow, num_threads))
        self.has_dynamic = any(b.dynamic for b in self.bodies)
        if self.has_dynamic:
            self.collection.finalize()
        self.stepper = ea.PositionVerlet()

        # ---------------- IO objects (the IO layer of the statement)
        if config.get("flow_io") == "plain":
            # the generic IO class with its default real_dtype (float64), whatever the solver precision
            self.io_flow = spu.IO(dim=dim)
            pos = flow.position_field
            origin = np.array([float(pos[dim - 1 - ax].min()) for ax in range(dim)])  # z-y-x ordering
            self.io_flow.define_eulerian_grid(origin=origin, dx=np.full(dim, float(flow.dx)), grid_size=np.array(shape))
            self.io_flow.add_as_eulerian_fields_for_io(vorticity=flow.vorticity_field, velocity=flow.velocity_field)
        else:
            self.io_flow = spu.EulerianFieldIO(
                position_field=flow.position_field, eulerian_fields_dict={"vorticity": flow.vorticity_field, "velocity": flow.velocity_field}
            )
        self.io_forcing = []
        for b in self.bodies:
            io = spu.IO(dim=dim, real_dtype=real_t)
            io.add_as_lagrangian_fields_for_io(
                lagrangian_grid=b.inter.forcing_grid.position_field, lagrangian_grid_name="body",
                position_mismatch=b.inter.lag_grid_position_mismatch_field, velocity_mismatch=b.inter.lag_grid_velocity_mismatch_field,
            )
            self.io_forcing.append(io)
        rods = [b for b in self.bodies if b.is_rod]
        if rods:
            self.io_rod = spu.CosseratRodIO(cosserat_rod=rods[0].body, dim=dim, real_dtype=real_t)
        else:
            # the helper wants a "rod_io": give it the first body's marker cloud (or an empty IO)
            self.io_rod = spu.IO(dim=dim, real_dtype=real_t)
            if self.bodies:
                self.io_rod.add_as_lagrangian_fields_for_io(lagrangian_grid=self.bodies[0].inter.forcing_grid.position_field, lagrangian_grid_name="markers")

    # ------------------------------------------------------------------ bodies
    def _make_body(self, spec, bi, nb, ea, sps, dx, flow, num_threads):
        dim, real_t = self.dim, self.real_t
        kind = spec["kind"]
        b = Body()
        b.spec, b.kind = spec, kind
        b.dynamic = kind in DYNAMIC
        b.is_rod = kind.startswith("rod")
        b.order = spec.get("order", "A")
        L = self.lengths
        centre = np.array([0.5 * L[ax] for ax in range(dim)])
        if nb == 2:
            centre[0] = (0.38 if bi == 0 else 0.62) * L[0]
        b.centre0 = centre.copy()
        reset = bool(spec.get("reset", False)) and nb == 1
        common = dict(
            eul_grid_forcing_field=flow.eul_grid_forcing_field, eul_grid_velocity_field=flow.velocity_field,
            virtual_boundary_stiffness_coeff=spec["k"], virtual_boundary_damping_coeff=spec["c"], dx=flow.dx, grid_dim=dim, real_t=real_t,
            enable_eul_grid_forcing_reset=reset, num_threads=num_threads, start_time=float(self.config.get("time0", 0.0)),
        )
        mo = spec.get("motion", {})
        b.amp = np.array((mo.get("amp", [0.0] * 3) + [0.0] * 3)[:3]) * dx
        b.freq = mo.get("freq", 1.0)
        b.spin = np.array((mo.get("spin", [0.0] * 3) + [0.0] * 3)[:3])
        c3 = np.zeros(3)
        c3[:dim] = centre
        if kind.startswith("cylinder"):
            radius = 2.0 * dx
            b.body = ea.Cylinder(start=np.array([centre[0], centre[1], 0.0]), direction=np.array([0.0, 0.0, 1.0]), normal=np.array([1.0, 0.0, 0.0]), base_length=1.0, base_radius=radius, density=spec.get("density", 2.0))
            b.inter = sps.RigidBodyFlowInteraction(rigid_body=b.body, forcing_grid_cls=sps.CircularCylinderForcingGrid, num_forcing_points=10, **common)
        elif kind.startswith("sphere"):
            b.body = ea.Sphere(center=c3.copy(), base_radius=1.2 * dx, density=spec.get("density", 2.0))
            b.inter = sps.RigidBodyFlowInteraction(rigid_body=b.body, forcing_grid_cls=sps.SphereForcingGrid, num_forcing_points_along_equator=6, **common)
        elif kind == "plane_presc":
            b.body = sps.RectangularPlane(origin=c3.copy(), plane_normal=np.array([1.0, 0.0, 0.0]), plane_tangent_along_length=np.array([0.0, 1.0, 0.0]), plane_length=2.4 * dx, plane_breadth=1.8 * dx)
            b.inter = sps.RigidBodyFlowInteraction(rigid_body=b.body, forcing_grid_cls=sps.RectangularPlaneForcingGrid, num_forcing_points_along_length=4, **common)
        elif kind == "pipe_presc":
            b.body = ea.Cylinder(start=c3 - np.array([1.5 * dx, 0.0, 0.0]), direction=np.array([1.0, 0.0, 0.0]), normal=np.array([0.0, 1.0, 0.0]), base_length=3.0 * dx, base_radius=1.2 * dx, density=1.0)
            b.inter = sps.RigidBodyFlowInteraction(rigid_body=b.body, forcing_grid_cls=sps.OpenEndCircularCylinderForcingGrid, num_forcing_points_along_length=3, **common)
        else:
            n_elems = 5 if dim == 2 else (3 if "surface" in kind else 4)
            length = (6.0 if dim == 2 else 4.0) * dx
            start = c3.copy()
            # rods hang along -y in 2D / along -z in 3D, clamped at the top (as in the examples)
            direction = np.array([0.0, -1.0, 0.0]) if dim == 2 else np.array([0.0, 0.0, -1.0])
            start -= 0.5 * length * direction
            normal = np.array([0.0, 0.0, 1.0]) if dim == 2 else np.array([0.0, 1.0, 0.0])
            E = spec.get("youngs", 2.0e4)
            b.body = ea.CosseratRod.straight_rod(
                n_elems, start=start, direction=direction, normal=normal, base_length=length, base_radius=0.5 * dx, density=spec.get("rod_density", 50.0), youngs_modulus=E, shear_modulus=E / 1.5,
            )
            grid_kw = {}
            if kind == "rod_nodal":
                cls = sps.CosseratRodNodalForcingGrid
            elif kind == "rod_elem":
                cls = sps.CosseratRodElementCentricForcingGrid
            elif kind == "rod_edge":
                cls = sps.CosseratRodEdgeForcingGrid
            else:
                cls = sps.CosseratRodSurfaceForcingGrid
                grid_kw = {"surface_grid_density_for_largest_element": 3, "with_cap": kind.endswith("cap")}
            b.inter = sps.CosseratRodFlowInteraction(cosserat_rod=b.body, forcing_grid_cls=cls, **common, **grid_kw)
        if b.dynamic:
            self.collection.append(b.body)
            if b.is_rod:
                self.collection.constrain(b.body).using(ea.OneEndFixedBC, constrained_position_idx=(0,), constrained_director_idx=(0,))
                self.collection.dampen(b.body).using(ea.AnalyticalLinearDamper, damping_constant=spec.get("rod_damping", 5.0), time_step=1.0e-3)
            self.collection.add_forcing_to(b.body).using(sps.FlowForces, b.inter)
        else:
            b.pos0 = b.body.position_collection[:, 0].copy()
            if dim == 2:
                b.amp[2] = 0.0
            self._prescribe(b, float(self.config.get("time0", 0.0)))
        return b

    def _prescribe(self, b, t: float) -> None:
        """Prescribed oscillation (and spin) as a function of time (rigid bodies only)."""
        body = b.body
        om = 2.0 * np.pi * b.freq
        body.position_collection[:, 0] = b.pos0 + b.amp * np.sin(om * t)
        body.velocity_collection[:, 0] = b.amp * om * np.cos(om * t)
        if self.dim == 2:
            body.omega_collection[2, 0] = b.spin[2]
            th = b.spin[2] * t
            body.director_collection[:2, :2, 0] = [[np.cos(th), np.sin(th)], [-np.sin(th), np.cos(th)]]
        elif b.kind == "sphere_presc":
            body.omega_collection[:, 0] = b.spin

    # ------------------------------------------------------------------ stepping
    def resolve_dt(self, op) -> float:
        dt = op["dt"]
        if isinstance(dt, dict):
            return min(float(self.flow.compute_stable_timestep(dt_prefac=dt["prefac"])), float(dt.get("cap", 1.0e9)))
        return float(dt)

    def run_queries(self, op) -> dict:
        out = {}
        for q in op.get("queries", []):
            if q == "stable":
                out["stable"] = float(self.flow.compute_stable_timestep())
            elif q == "div" and self.dim == 3:
                out["div"] = float(self.flow.get_vorticity_divergence_l2_norm())
            elif q == "dev":
                out["dev"] = [float(b.inter.get_grid_deviation_error_l2_norm()) for b in self.bodies]
        return out

    def step(self, op) -> float:
        """One flow step of the coupling loop (orders as in the examples / restart test)."""
        flow = self.flow
        self.run_queries(op)
        dt = self.resolve_dt(op)
        t = float(flow.time)
        for b in self.bodies:
            if not b.dynamic:
                self._prescribe(b, t)
        if self.has_dynamic:
            nsub = int(op.get("substeps", 2))
            rod_time = np.float64(t)
            for _ in range(nsub):
                rod_time = self.stepper.step(self.collection, rod_time, np.float64(dt / nsub))
                for b in self.bodies:
                    if b.dynamic:
                        b.inter.time_step(dt=dt / nsub)
        for b in self.bodies:
            if not b.dynamic and b.order == "A":
                b.inter.time_step(dt=dt)
        for b in self.bodies:
            b.inter()
        for b in self.bodies:
            if not b.dynamic and b.order == "B":
                b.inter.time_step(dt=dt)
        if self.free_stream is not None:
            if self.config.get("free_stream_ramp"):
                # the driver keeps one array and updates it in place (a ramped / gusting free stream)
                self.free_stream[...] = self.free_stream0 * (1.0 + 0.3 * np.sin(40.0 * (t - float(self.config.get("time0", 0.0)))))
            flow.time_step(dt=dt, free_stream_velocity=self.free_stream)
        else:
            flow.time_step(dt=dt)
        for b in self.bodies:
            if not b.dynamic:
                self._prescribe(b, float(flow.time))  # body state is a function of simulation time
        return dt

    # ------------------------------------------------------------------ observation
    def observe(self) -> dict:
        flow = self.flow
        out = {"vorticity": flow.vorticity_field.copy(), "velocity": flow.velocity_field.copy(), "time": np.array([flow.time], dtype=np.float64)}
        if hasattr(flow, "eul_grid_forcing_field"):
            out["eul_forcing"] = flow.eul_grid_forcing_field.copy()
        for i, b in enumerate(self.bodies):
            it = b.inter
            out[f"b{i}.X"] = it.lag_grid_position_mismatch_field.copy()
            out[f"b{i}.V"] = it.lag_grid_velocity_mismatch_field.copy()
            out[f"b{i}.F"] = it.lag_grid_forcing_field.copy()
            out[f"b{i}.clock"] = np.array([it.time], dtype=np.float64)
            out[f"b{i}.markers"] = it.forcing_grid.position_field.copy()
            out[f"b{i}.pos"] = b.body.position_collection.copy()
            out[f"b{i}.vel"] = b.body.velocity_collection.copy()
            out[f"b{i}.omega"] = b.body.omega_collection.copy()
            out[f"b{i}.dir"] = b.body.director_collection.copy()
        return out

    # ------------------------------------------------------------------ durable state
    def checkpoint(self, k: int, directory: str, torn_after: str | None = None) -> None:
        """Write the public state of the statement through the IO layer, file by file.

        Order: flow, rod, forcing (body 0), forcing of further bodies, body store.
        `torn_after` names the last file family written before the crash.
        """
        import elastica as ea

        t = self.flow.time
        p = lambda name: os.path.join(directory, name)  # noqa: E731
        self.io_flow.save(h5_file_name=p(f"sopht_{k:04d}.h5"), time=t)
        if torn_after == "flow":
            return
        self.io_rod.save(h5_file_name=p(f"rod_{k:04d}.h5"), time=t)
        if torn_after == "rod":
            return
        for i, io in enumerate(self.io_forcing):
            name = f"forcing_grid_{k:04d}.h5" if i == 0 else f"forcing_grid_b{i}_{k:04d}.h5"
            io.save(h5_file_name=p(name), time=self.bodies[i].inter.time)
        if not self.io_forcing:
            # the helper always loads a forcing file
            import sopht.utils as spu

            spu.IO(dim=self.dim, real_dtype=self.real_t).save(h5_file_name=p(f"forcing_grid_{k:04d}.h5"), time=t)
        if torn_after == "forcing":
            return
        if self.has_dynamic:
            ea.save_state(self.collection, p(f"restart_data_{k:04d}"), np.float64(t))
        else:
            os.makedirs(p(f"restart_data_{k:04d}"), exist_ok=True)
            import json

            with open(p(f"restart_data_{k:04d}/meta.json"), "w") as f:
                json.dump({"time": float(t)}, f)

    def load_body_store(self, d: str) -> float:
        """The PyElastica peer's durable store, restored exactly.

        Same on-disk format as ea.save_state (npz per system + meta.json).  The real
        ea.load_state re-applies boundary conditions after loading, which perturbs the
        rates of constrained nodes (upstream PyElastica issue #528, the reason the
        repository's own restart test is xfail); that is a defect of the peer, not of
        SophT, so the simulated peer restores the saved arrays and nothing else.
        """
        import json

        from elastica.memory_block.protocol import BlockSystemProtocol

        with open(os.path.join(d, "meta.json")) as f:
            t = json.load(f)["time"]
        if self.has_dynamic:
            for idx, system in enumerate(self.collection.systems()):
                if isinstance(system, BlockSystemProtocol):
                    continue
                data = np.load(os.path.join(d, f"{system.__class__.__name__}_{idx}.npz"), allow_pickle=True)
                for key, value in data.items():
                    if value.shape != ():
                        getattr(system, key)[...] = value
                    else:
                        setattr(system, key, value[()])
        return t

    def restore(self, k: int, directory: str, use_helper: bool = True, peer_skew: float = 0.0) -> float:
        """Load checkpoint k from `directory` into this (fresh) system.

        With use_helper the real restart helper is called with cwd = directory; its
        `ea.load_state` is the real PyElastica one for dynamic bodies, and a fake peer
        (returns the stored time + skew) otherwise.
        """
        import json

        import elastica as ea
        import sopht.utils.restart_sim as rs

        cwd = os.getcwd()
        os.chdir(directory)
        real_ea = rs.ea
        try:
            restart_dir = f"restart_data_{k:04d}"
            if use_helper:
                sysm = self

                class FakeElastica:
                    def __getattr__(self, name):
                        return getattr(ea, name)

                    @staticmethod
                    def load_state(simulator, d, verbose=False):
                        return sysm.load_body_store(d) + peer_skew

                rs.ea = FakeElastica()
                t = rs.restart_simulation(restart_simulator=self.collection, io=self.io_flow, rod_io=self.io_rod, forcing_io=self.io_forcing[0] if self.io_forcing else _empty_io(self), restart_dir=restart_dir)
            else:
                t = self.io_flow.load(h5_file_name=f"sopht_{k:04d}.h5")
                if self.io_forcing:
                    self.io_forcing[0].load(h5_file_name=f"forcing_grid_{k:04d}.h5")
                self.load_body_store(restart_dir)
            self.flow.time = t
            # forcing clocks and further bodies: read back through the IO layer
            for i, io in enumerate(self.io_forcing):
                name = f"forcing_grid_{k:04d}.h5" if i == 0 else f"forcing_grid_b{i}_{k:04d}.h5"
                self.bodies[i].inter.time = float(io.load(h5_file_name=name))
            for b in self.bodies:
                if not b.dynamic:
                    self._prescribe(b, float(t))
            return t
        finally:
            rs.ea = real_ea
            os.chdir(cwd)


def _empty_io(system):
    import sopht.utils as spu

    return spu.IO(dim=system.dim, real_dtype=system.real_t)
