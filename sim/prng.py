"""One integer decides everything.

`run_rng(seed, prop, run)` is the only generator a check may draw its program
from.  Array contents are never stored in programs; they are *named* by a
sub-seed and regenerated with numpy's PCG64 (bit-stable across platforms and
processes), so a replay file stays small and a program is pure JSON.
"""

from __future__ import annotations

import hashlib
import random

import numpy as np


def run_rng(seed: int, prop: str, run: int) -> random.Random:
    return random.Random(f"{seed}/{prop}/{run}")


def sub_seed(rng: random.Random) -> int:
    return rng.getrandbits(48)


def np_rng(sub: int, *salt) -> np.random.Generator:
    h = hashlib.sha256(repr((sub, *salt)).encode()).digest()
    return np.random.Generator(np.random.PCG64(int.from_bytes(h[:8], "little")))


def smooth_field(sub: int, shape, dtype, scale: float = 1.0, *salt) -> np.ndarray:
    """Generic (continuous random) field; no two cells equal with probability 1."""
    g = np_rng(sub, "field", *salt)
    a = g.standard_normal(shape) * scale
    return a.astype(dtype)


def weighted_choice(rng: random.Random, items):
    """items: list of (value, weight)"""
    tot = sum(w for _, w in items)
    x = rng.random() * tot
    acc = 0.0
    for v, w in items:
        acc += w
        if x < acc:
            return v
    return items[-1][0]
