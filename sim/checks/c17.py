"""C17 - saved fields reload bit-exactly and mismatching files are rejected.

Simulated system: real IO / EulerianFieldIO / CosseratRodIO writing real HDF5
files in a per-run scratch directory through the h5py proxy (sim/h5sim.py),
which numbers every durable write and injects crashes and lost writes.
Oracle: a file model fed only by what the proxy let through plus a snapshot of
the writer's arrays at save time (the acknowledged bytes).
"""

from __future__ import annotations

import copy
import os

import numpy as np

from .. import h5sim, prng
from ..driver import Check, run_dir

NAMES = ["vorticity", "velocity", "phi", "f", "q_0", "force", "position_mismatch", "a", "B2", "scalar_3d", "T"]
GRID_NAMES = ["rod", "cosseratrod", "body", "G", "sphere_1", None]
SENTINEL = 12345.678


def _real_t(precision):
    return np.float32 if precision == "single" else np.float64


def _bits(a) -> bytes:
    return np.ascontiguousarray(a).tobytes()


def _special_values(real_t, n, g):
    fi = np.finfo(real_t)
    if real_t == np.float32:
        nan_payloads = np.array([0x7FC00001, 0xFFC12345, 0x7F800001, 0x7FFFFFFF], dtype=np.uint32).view(np.float32)
    else:
        nan_payloads = np.array([0x7FF8000000000001, 0xFFF8123456789ABC, 0x7FF0000000000001, 0x7FFFFFFFFFFFFFFF], dtype=np.uint64).view(np.float64)
    pool = np.concatenate(
        [
            nan_payloads,
            np.array([np.inf, -np.inf, 0.0, -0.0, fi.tiny, -fi.tiny, fi.smallest_subnormal, -fi.smallest_subnormal, fi.max, fi.min, fi.eps, 1.0, -1.0], dtype=real_t),
        ]
    )
    idx = g.integers(0, len(pool), size=n)
    return pool[idx]


class C17(Check):
    prop_id = "C17"
    level = "fault_enumeration"
    technique = "deterministic simulation with fault injection: seeded save/load/overwrite histories on real HDF5 files through an h5py proxy; crash at every write index and every single lost write of sampled saves; file-model oracle"
    rule = (
        "a case is one history (registrations + fill/save/load/delete ops + fault plan) drawn from VERIF_SEED; "
        "'crash_all'/'lose_all' saves enumerate every write index of that save exhaustively; "
        "non-trivial = at least one save followed by a load of a file with >= 1 registered field or grid; "
        "distinct = distinct canonical JSON of the program"
    )
    assumptions = [
        "HDF5 payload corruption (flipped bytes, truncated raw data) is not injected: SophT has no checksums and the property does not promise detection",
        "parameter mismatches are generated far above numpy.allclose tolerance (>= 10% and >= 1e-3)",
        "mismatching-parameter readers always register at least one Eulerian field (the statement is about registered fields)",
        "a crash closes the HDF5 file cleanly (h5py context manager): torn HDF5 metadata blocks are out of scope",
        ".xmf side files are not part of the property and are not faulted",
    ]
    components = {
        "real": ["sopht.utils.io.IO", "EulerianFieldIO", "CosseratRodIO on a real elastica CosseratRod", "h5py + libhdf5 on a tmpfs scratch directory"],
        "stub": ["sopht.utils.io.h5py module attribute -> forwarding proxy that counts writes and injects crash / lost-write faults"],
    }
    required_probes = [
        "crash_points_enumerated", "lost_writes_enumerated", "load_rejected_incomplete", "load_accepted_complete",
        "special_values", "markers_eq_dim", "overwrite", "foreign_file", "param_mismatch_reader", "rod_io", "eulerian_io",
        "grid_without_fields", "recovery_after_failed_save", "post_hoc_delete", "reader_object_reused", "file_name_without_h5_suffix", "non_c_contiguous_registered_arrays", "cross_class_reader", "rod_io_created_before_finalize", "rod_io_with_extra_fields", "mixed_precision_in_one_io", "all_zero_field_with_negative_zeros", "file_moved_into_place", "eulerian_arrays_of_other_precision",
    ]
    tiers = {
        "quick": {"runs": 640, "batch": 8, "timeout": 300},
        "thorough": {"runs": 30000, "batch": 10, "timeout": 600},
    }
    selftest_runs = {"quick": 16, "thorough": 200}

    def warmup(self, tier):
        from ..seams import install

        install()
        import elastica  # noqa: F401
        import sopht.utils.io  # noqa: F401

    # ------------------------------------------------------------------ program
    def _draw_spec(self, rng, dim, used_grid_names):
        cls = prng.weighted_choice(rng, [("IO", 6), ("EulerianFieldIO", 2), ("CosseratRodIO", 2)])
        spec = {"cls": cls, "grid": None, "efields": [], "lgrids": [], "lag_f64": rng.random() < 0.3, "e_other": rng.random() < 0.25, "layout": prng.weighted_choice(rng, [("C", 6), ("F", 1), ("window", 1), ("component_last", 1)])}
        names = NAMES[:]
        rng.shuffle(names)
        if cls == "CosseratRodIO":
            spec["rod"] = {"n_elems": rng.choice([2, 3, 4, 7, 12]), "sub": prng.sub_seed(rng), "finalize_after_io": rng.random() < 0.4}
            if rng.random() < 0.35:
                # further element-wise quantities carried on the rod IO's own "rod" grid
                spec["rod"]["extras"] = [{"name": nm, "kind": kd} for nm, kd in rng.sample([("tension", "scalar"), ("direction", "vector"), ("curvature", "vector")], k=rng.choice([1, 2]))]
            return spec
        if cls == "EulerianFieldIO" or rng.random() < 0.7:
            size = [rng.randint(2, 7) for _ in range(dim)]
            if rng.random() < 0.15:
                size[rng.randrange(dim - 1)] = 1  # a slab / line domain (never along x)
            dx = rng.choice([0.125, 0.01, 1.0, 0.3])
            spec["grid"] = {"origin": [rng.choice([0.0, dx / 2, -1.5, 10.0]) for _ in range(dim)], "dx": dx, "size": size}
            if rng.random() < 0.2:
                spec["grid"]["origin"][rng.randrange(dim)] = rng.choice([2000.0, -3.0e5])  # a domain far from the coordinate origin along one axis
            ne = rng.randint(1 if cls == "EulerianFieldIO" else 0, 3)
            for _ in range(ne):
                spec["efields"].append({"name": names.pop(), "kind": rng.choice(["scalar", "vector"])})
        if cls == "IO":
            ng = rng.choice([0, 1, 1, 2, 3]) if spec["grid"] else rng.choice([1, 1, 2, 3])
            for _ in range(ng):
                gname = rng.choice(GRID_NAMES)
                if gname is not None and gname in used_grid_names:
                    gname = None
                if gname is not None:
                    used_grid_names.add(gname)
                n = rng.choice([1, 2, 3, 4, 5, 9, 17, 40, dim, dim])
                nf = rng.choice([0, 1, 2, 2, 3])
                fields = []
                for _ in range(nf):
                    if rng.random() < 0.08 and spec["lgrids"] and spec["lgrids"][0]["fields"] and not fields:
                        fname = spec["lgrids"][0]["fields"][0]["name"]  # same keyword on two grids
                    elif rng.random() < 0.1 and spec["efields"] and spec["efields"][0]["name"] not in [f["name"] for f in fields]:
                        # the same keyword for an Eulerian and a Lagrangian field (separate registries, maybe other kinds)
                        fname = spec["efields"][0]["name"]
                    else:
                        fname = names.pop() if names else f"x{rng.randrange(1000)}"
                    fields.append({"name": fname, "kind": rng.choice(["scalar", "vector", "vector"]), "f64": rng.random() < 0.5})
                spec["lgrids"].append({"name": gname, "n": n, "connect": rng.random() < 0.3, "fields": fields, "f64": rng.random() < 0.5})
            spec["lag_mixed"] = rng.random() < 0.25  # arrays of both precisions inside one IO object
        return spec

    def _mutate_spec(self, rng, spec, dim):
        """A reader registration that does NOT match files written by `spec`."""
        s = copy.deepcopy(spec)
        choices = []
        if s["grid"] and s["efields"]:
            choices += ["origin", "dx", "size"]
        if s["cls"] == "IO":
            choices += ["extra_lfield", "extra_grid"]
            if s["grid"]:
                choices += ["extra_efield"]
        if s["cls"] == "EulerianFieldIO":
            choices += ["extra_efield"]
        if not choices:
            return None, None
        m = rng.choice(choices)
        if m == "origin":
            ax = rng.randrange(dim)
            if abs(s["grid"]["origin"][ax]) <= 10.0 and rng.random() < 0.5:
                # half a cell off on an axis whose origin is O(1): far above allclose's per-component tolerance
                s["grid"]["origin"][ax] += 0.5 * s["grid"]["dx"]
            else:
                s["grid"]["origin"][ax] += rng.choice([1.0, -2.0, 0.5]) * max(1.0, abs(s["grid"]["origin"][ax]) * 1e-3)
        elif m == "dx":
            s["grid"]["dx"] *= rng.choice([2.0, 0.5, 1.25])
        elif m == "size":
            unit = [a for a in range(dim) if s["grid"]["size"][a] == 1]
            ax = rng.choice(unit) if unit and rng.random() < 0.7 else rng.randrange(dim)
            s["grid"]["size"][ax] += rng.choice([1, 2, 4])
        elif m == "extra_efield":
            s["efields"].append({"name": "zz_extra", "kind": rng.choice(["scalar", "vector"])})
        elif m == "extra_lfield":
            if not s["lgrids"]:
                return None, None
            s["lgrids"][rng.randrange(len(s["lgrids"]))]["fields"].append({"name": "zz_extra", "kind": rng.choice(["scalar", "vector"])})
        elif m == "extra_grid":
            s["lgrids"].append({"name": "zz_other_grid", "n": 3, "connect": False, "fields": [{"name": "zz_f", "kind": "vector"}] if rng.random() < 0.7 else []})
        return s, m

    def draw(self, rng, tier, run):
        dim = rng.choice([2, 3])
        precision = rng.choice(["single", "double"])
        n_ios = rng.choice([1, 1, 2])
        used = set()
        ios = [self._draw_spec(rng, dim, used) for _ in range(n_ios)]
        if rng.random() < 0.3 and ios[0]["grid"] and ios[0]["efields"]:
            # a second writer on a grid with the same cell count but another origin / spacing:
            # its files look alike to a reader of the first registration
            twin = copy.deepcopy(ios[0])
            if rng.random() < 0.5:
                ax = rng.randrange(dim)
                twin["grid"]["origin"][ax] += rng.choice([1.0, -2.0, 0.5]) * max(1.0, abs(twin["grid"]["origin"][ax]) * 1e-3)
            else:
                twin["grid"]["dx"] *= rng.choice([2.0, 0.5, 1.25])
            twin["twin_of"] = 0
            ios = [ios[0], twin]
            n_ios = 2
        readers = []  # extra reader-only specs
        for i in range(n_ios):
            if rng.random() < 0.5:
                s, m = self._mutate_spec(rng, ios[i], dim)
                if s is not None:
                    s["mutation"] = m
                    s["of"] = i
                    readers.append(s)
        # cross-class reader: the same physical grid and fields seen through the other Eulerian IO class
        # (values exactly representable in single precision so that both classes define the identical grid)
        for i in range(n_ios):
            w = ios[i]
            if w["cls"] in ("EulerianFieldIO", "IO") and w["grid"] and w["efields"] and not w["lgrids"] and not any(z.get("twin_of") == i or z.get("of") == i for z in ios + readers) and "twin_of" not in w and rng.random() < 0.6:
                w["grid"]["dx"] = rng.choice([0.125, 0.5, 0.25, 1.0])
                w["grid"]["origin"] = [rng.choice([0.0, -1.5, 10.0, 0.5, 2000.0]) for _ in range(dim)]
                x = copy.deepcopy(w)
                x["cls"] = "IO" if w["cls"] == "EulerianFieldIO" else "EulerianFieldIO"
                x["cross_of"] = i
                x["of"] = i
                x.pop("twin_of", None)
                readers.append(x)
        for r in readers:
            if "of" in r and r.get("mutation"):
                pass
        specs = ios + readers
        # file names are the caller's choice: with and without the customary ".h5" suffix
        files = rng.choice([["a.h5", "b.h5"], ["a.h5", "b.h5"], ["a.h5", "state.hdf5"], ["chk", "b.h5"], ["run.h5.d_x.h5", "b.h5"]])
        ops = []
        saved = []
        n_ops = rng.randint(3, 10)
        for k in range(n_ops):
            r = rng.random()
            if not saved or r < 0.35:
                i = rng.randrange(n_ios)
                if rng.random() < 0.8:
                    ops.append({"op": "fill", "io": i, "sub": prng.sub_seed(rng), "special": rng.random() < 0.4, "signed_zero": rng.random() < 0.12})
                fault = prng.weighted_choice(rng, [(None, 8), ("crash_all", 2), ("lose_all", 2), ("crash", 1), ("lose", 1)])
                if fault in ("crash", "lose"):
                    fault = {fault: rng.randrange(0, 12)}
                f = rng.choice(files)
                t = rng.choice([0.0, 1.5, 0.1 * k + 0.1, 1e-310, -0.0, 3.0e8, 0.1 + 0.2, 0.00925, 250.0038])
                ttype = rng.choice(["float", "float", "f32", "f64", "int"])
                ops.append({"op": "save", "io": i, "file": f, "time": t, "ttype": ttype, "fault": fault})
                saved.append((f, i))
            elif r < 0.85:
                f, wi = rng.choice(saved)
                related = [k for k, z in enumerate(specs) if z.get("of") == wi]
                if related and rng.random() < 0.35:
                    j = rng.choice(related)  # a reader derived from this writer: mismatching or cross-class
                elif rng.random() < 0.7:
                    j = wi
                else:
                    j = rng.randrange(len(specs))
                ops.append({"op": "load", "io": j, "file": f, "reuse": rng.random() < 0.5})
            elif r < 0.93 and len({x[0] for x in saved}) >= 2:
                # a file is moved into place under the name of another one (post-processing, run directories)
                fa, fb = rng.sample(sorted({x[0] for x in saved}), 2)
                ops.append({"op": "move_file", "src": fb, "dst": fa})
                wi = [x[1] for x in saved if x[0] == fb][-1]
                saved = [x for x in saved if x[0] not in (fa, fb)] + [(fa, wi)]
                ops.append({"op": "load", "io": rng.choice([wi, rng.randrange(len(specs))]), "file": fa, "reuse": rng.random() < 0.5})
            else:
                f, wi = rng.choice(saved)
                ops.append({"op": "delete", "file": f, "pick": rng.randrange(1000)})
                ops.append({"op": "load", "io": wi, "file": f})
        if not any(o["op"] == "load" for o in ops) and saved:
            f, wi = saved[-1]
            ops.append({"op": "load", "io": wi, "file": f})
        return {"dim": dim, "precision": precision, "specs": specs, "n_writers": n_ios, "ops": ops}

    # ------------------------------------------------------------------ building real IO objects
    @staticmethod
    def _empty(shape, dtype, layout, fill):
        """An array of `shape` in the requested memory layout (all are legal numpy arrays)."""
        if layout == "F":
            a = np.full(shape, fill, dtype=dtype, order="F")
        elif layout == "window":
            big = np.full(tuple(n + 2 for n in shape), -7.25, dtype=dtype)
            a = big[tuple(slice(1, 1 + n) for n in shape)]
            a[...] = fill
        elif layout == "component_last" and len(shape) >= 2:
            big = np.full((*shape[1:], shape[0]), fill, dtype=dtype)
            a = np.moveaxis(big, -1, 0)
        else:
            a = np.full(shape, fill, dtype=dtype)
        return a

    @classmethod
    def _alloc(cls, spec, dim, real_t, fill=None):
        """Allocate the arrays a registration refers to. Returns dict key -> ndarray."""
        arrs = {}
        layout = spec.get("layout", "C")
        if spec["grid"]:
            size = tuple(spec["grid"]["size"])
            # the registered arrays need not have the precision the IO object was told about
            e_t = (np.float32 if real_t == np.float64 else np.float64) if spec.get("e_other") and spec["cls"] in ("IO", "EulerianFieldIO") else real_t
            for f in spec["efields"]:
                shape = size if f["kind"] == "scalar" else (dim, *size)
                arrs[("e", f["name"])] = cls._empty(shape, e_t, layout, SENTINEL if fill is None else fill)
        if spec["cls"] == "CosseratRodIO":
            for fi, f in enumerate(spec["rod"].get("extras", [])):
                n_el = spec["rod"]["n_elems"]
                arrs[("rx", fi)] = np.full((n_el,) if f["kind"] == "scalar" else (dim, n_el), SENTINEL, dtype=np.float64)
        lag_t = np.float64 if spec.get("lag_f64") else real_t  # body arrays are float64 whatever the flow precision
        mixed = spec.get("lag_mixed", False)
        for gi, g in enumerate(spec["lgrids"]):
            gt = (np.float64 if g.get("f64") else np.float32) if mixed else lag_t
            arrs[("g", gi)] = cls._empty((dim, g["n"]), gt, layout, SENTINEL)
            for fi, f in enumerate(g["fields"]):
                shape = (g["n"],) if f["kind"] == "scalar" else (dim, g["n"])
                ft = (np.float64 if f.get("f64") else np.float32) if mixed else lag_t
                arrs[("l", gi, fi)] = cls._empty(shape, ft, layout, SENTINEL)
        return arrs

    @staticmethod
    def _position_field(grid, dim, real_t):
        dx = grid["dx"]
        axes = [np.array([grid["origin"][ax] + dx * k for k in range(grid["size"][ax])], dtype=real_t) for ax in range(dim)]
        return np.flipud(np.array(np.meshgrid(*axes, indexing="ij")))

    def _build(self, spec, dim, real_t, arrs, rod_variant=0):
        """Construct a real IO object from a registration spec and allocated arrays."""
        import elastica as ea
        import sopht.utils as spu

        extra = {}
        if spec["cls"] == "CosseratRodIO":
            n = spec["rod"]["n_elems"]
            g = prng.np_rng(spec["rod"]["sub"], "rod", rod_variant)
            rod = ea.CosseratRod.straight_rod(
                n, start=np.array([0.1, 0.2, 0.3]) + rod_variant, direction=np.array([1.0, 0.0, 0.0]), normal=np.array([0.0, 1.0, 0.0]),
                base_length=1.0 + rod_variant, base_radius=0.05 * (1 + rod_variant), density=1000.0, youngs_modulus=1e6, shear_modulus=1e6 / 1.5,
            )
            rod.position_collection[...] += 0.01 * g.standard_normal(rod.position_collection.shape)
            rod.radius[...] *= 1.0 + 0.1 * g.random(rod.radius.shape)
            io = spu.CosseratRodIO(cosserat_rod=rod, dim=dim, real_dtype=real_t)
            if spec["rod"].get("extras"):
                io.add_as_lagrangian_fields_for_io(
                    lagrangian_grid=io.rod_element_position, lagrangian_grid_name="rod", lagrangian_grid_connect=True, scalar_3d=rod.radius,
                    **{f["name"]: arrs[("rx", fi)] for fi, f in enumerate(spec["rod"]["extras"])},
                )
            extra["rod"] = rod
            if spec["rod"].get("finalize_after_io") and rod_variant == 0:
                # as in several examples: the IO object is created first, then the PyElastica simulator is
                # finalised, which re-binds the rod's arrays to block memory
                class _Sim(ea.BaseSystemCollection):
                    pass

                sim_ = _Sim()
                sim_.append(rod)
                sim_.finalize()
                extra["collection"] = sim_
            return io, extra
        if spec["cls"] == "EulerianFieldIO":
            pos = self._position_field(spec["grid"], dim, real_t)
            io = spu.EulerianFieldIO(position_field=pos, eulerian_fields_dict={f["name"]: arrs[("e", f["name"])] for f in spec["efields"]})
        else:
            io = spu.IO(dim=dim, real_dtype=real_t)
            if spec["grid"]:
                gd = spec["grid"]
                io.define_eulerian_grid(origin=np.array(gd["origin"], dtype=float), dx=np.full(dim, gd["dx"]), grid_size=np.array(gd["size"]))
                if spec["efields"]:
                    io.add_as_eulerian_fields_for_io(**{f["name"]: arrs[("e", f["name"])] for f in spec["efields"]})
        for gi, g in enumerate(spec["lgrids"]):
            io.add_as_lagrangian_fields_for_io(
                lagrangian_grid=arrs[("g", gi)], lagrangian_grid_name=g["name"], lagrangian_grid_connect=g["connect"],
                **{f["name"]: arrs[("l", gi, fi)] for fi, f in enumerate(g["fields"])},
            )
        return io, extra

    @staticmethod
    def _grid_names(spec):
        """Names the grids get (default naming counts unnamed grids in order)."""
        out, c = [], 0
        for g in spec["lgrids"]:
            if g["name"] is None:
                out.append(f"Lagrangian_grid_{c}")
                c += 1
            else:
                out.append(g["name"])
        return out

    def _items(self, spec, dim):
        """Registered items with their documented on-disk paths.

        Returns list of (key, kind, paths-alternatives) where each alternative is a
        list of dataset paths that together hold the item.
        """
        items = []
        if spec["cls"] == "CosseratRodIO":
            items.append((("rodgrid",), "grid", [["Lagrangian/rod/Grid"]]))
            items.append((("rodradius",), "lscalar", [["Lagrangian/rod/Scalar/scalar_3d"], ["Lagrangian/rod/Vector/scalar_3d"]]))
            for fi, f in enumerate(spec["rod"].get("extras", [])):
                items.append((("rx", fi), "lscalar" if f["kind"] == "scalar" else "lvector", [[f"Lagrangian/rod/Scalar/{f['name']}"], [f"Lagrangian/rod/Vector/{f['name']}"]]))
            return items
        for f in spec["efields"]:
            if f["kind"] == "scalar":
                items.append((("e", f["name"]), "escalar", [[f"Eulerian/Scalar/{f['name']}"]]))
            else:
                items.append((("e", f["name"]), "evector", [[f"Eulerian/Vector/{f['name']}_{i}" for i in range(dim)]]))
        gnames = self._grid_names(spec)
        for gi, g in enumerate(spec["lgrids"]):
            items.append((("g", gi), "grid", [[f"Lagrangian/{gnames[gi]}/Grid"]]))
            for fi, f in enumerate(g["fields"]):
                kind = "lscalar" if f["kind"] == "scalar" else "lvector"
                items.append(
                    (("l", gi, fi), kind, [[f"Lagrangian/{gnames[gi]}/Scalar/{f['name']}"], [f"Lagrangian/{gnames[gi]}/Vector/{f['name']}"]])
                )
        return items

    @staticmethod
    def _dup_names(spec):
        names = [f["name"] for g in spec["lgrids"] for f in g["fields"]]
        return {n for n in names if names.count(n) > 1}

    @classmethod
    def _has_duplicate_lag_names(cls, spec):
        return bool(cls._dup_names(spec))

    # ------------------------------------------------------------------ execute
    def execute(self, program, res):
        from ..seams import install

        install()
        import h5py
        import sopht.utils.io as sio

        dim = program["dim"]
        real_t = _real_t(program["precision"])
        specs = program["specs"]
        nw = program["n_writers"]
        wd = run_dir(f"c17-{os.getpid()}-{program.get('_run', 0)}")
        for fn in os.listdir(wd):
            os.unlink(os.path.join(wd, fn))
        sim = h5sim.install(sio)
        try:
            self._execute(program, res, dim, real_t, specs, nw, wd, sim, h5py)
        finally:
            h5sim.uninstall(sio)
            for fn in os.listdir(wd):
                os.unlink(os.path.join(wd, fn))
            os.rmdir(wd)

    def _snapshot(self, spec, arrs, extra, dim):
        snap = {k: v.copy() for k, v in arrs.items()}
        if spec["cls"] == "CosseratRodIO":
            rod = extra["rod"]
            snap[("rodpos",)] = rod.position_collection.copy()
            snap[("rodradius",)] = rod.radius.copy()
            snap[("rodgrid",)] = 0.5 * (rod.position_collection[:dim, 1:] + rod.position_collection[:dim, :-1])
        return snap

    def _execute(self, program, res, dim, real_t, specs, nw, wd, sim, h5py):
        writers = []
        for i in range(nw):
            arrs = self._alloc(specs[i], dim, real_t, fill=0.0)
            for k, a in arrs.items():
                a[...] = prng.smooth_field(i, a.shape, a.dtype.type, 1.0, "init", str(k))
            io, extra = self._build(specs[i], dim, real_t, arrs)
            writers.append({"io": io, "arrs": arrs, "extra": extra, "spec": specs[i]})
            if specs[i]["cls"] == "CosseratRodIO":
                res.probe("rod_io")
                if specs[i]["rod"].get("finalize_after_io"):
                    res.probe("rod_io_created_before_finalize")
                if specs[i]["rod"].get("extras"):
                    res.probe("rod_io_with_extra_fields")
            if specs[i]["cls"] == "EulerianFieldIO":
                res.probe("eulerian_io")
            if specs[i].get("layout", "C") != "C":
                res.probe("non_c_contiguous_registered_arrays")
            if specs[i].get("e_other") and specs[i]["cls"] in ("IO", "EulerianFieldIO") and specs[i]["efields"]:
                res.probe("eulerian_arrays_of_other_precision")
            if specs[i].get("lag_mixed") and len({a.dtype for k, a in arrs.items() if k[0] in ("g", "l")}) > 1:
                res.probe("mixed_precision_in_one_io")
            if any(g["n"] == dim and any(f["kind"] == "vector" for f in g["fields"]) for g in specs[i]["lgrids"]):
                res.probe("markers_eq_dim")
            if specs[i]["lgrids"] and not any(g["fields"] for g in specs[i]["lgrids"]):
                res.probe("grid_without_fields")
            if self._has_duplicate_lag_names(specs[i]):
                res.probe("same_field_name_on_two_grids")
        truth = {}  # file -> dict(writer=i, snap=..., time=..., complete=bool)
        did_save = did_load = False

        def path_of(f):
            return os.path.join(wd, f)

        def save(i, f, t, plan):
            w = writers[i]
            before = self._snapshot(w["spec"], w["arrs"], w["extra"], dim)
            existed = os.path.exists(path_of(f))
            sim.arm(plan)
            ack = True
            try:
                w["io"].save(h5_file_name=path_of(f), time=t)
            except h5sim.SimulatedCrash:
                ack = False
            except Exception as e:  # noqa: BLE001
                # a save that fails for another reason while a fault is armed is an unacknowledged save;
                # without a fault it is reported below through the must-accept oracle at load time
                ack = False
                res.log.event("save_raised", err=type(e).__name__)
                if plan.crash_at is None and plan.lose is None:
                    res.violation("save_failed", {"cls": w["spec"]["cls"]}, f"fault-free save raised {type(e).__name__}: {e}")
            for k2, v in plan.fired.items():
                res.fault(k2, v)
            after = self._snapshot(w["spec"], w["arrs"], w["extra"], dim)
            for k in before:
                if k == ("rodgrid",):
                    continue
                if _bits(before[k]) != _bits(after[k]):
                    res.violation("save_modified_source", {"cls": w["spec"]["cls"], "item": str(k[0])}, f"save changed source array {k}")
            if existed:
                res.probe("overwrite")
            if not f.endswith(".h5"):
                res.probe("file_name_without_h5_suffix")
            truth[f] = {"writer": i, "snap": before, "time": t, "ack": ack, "model": sim.models.get(path_of(f), h5sim.FileModel()), "deleted": set()}
            res.add_sim("file_ops", 1)
            res.add_sim("h5_writes", plan.count)
            return ack

        def layout_check(i, f):
            """Oracle 5: read back with plain h5py after an acknowledged fault-free save."""
            w = writers[i]
            spec = w["spec"]
            snap = truth[f]["snap"]
            try:
                probe = h5py.File(path_of(f), "r")
                probe.close()
            except OSError as e:
                res.violation("layout", {"what": "not_an_hdf5_file", "h5_suffix": f.endswith(".h5")}, f"after an acknowledged fault-free save, '{f}' cannot be opened as HDF5: {e}")
                truth[f]["destroyed"] = True
                return
            with h5py.File(path_of(f), "r") as h:
                tfile = h.attrs["time"]
                if np.float64(tfile).tobytes() != np.float64(truth[f]["time"]).tobytes():
                    res.violation("layout", {"what": "time"}, f"time attribute {tfile!r} != saved {truth[f]['time']!r}")
                if spec["cls"] == "CosseratRodIO":
                    g = h["Lagrangian"]["rod"]["Grid"][...]
                    n = spec["rod"]["n_elems"]
                    if g.shape != (n, dim) or not np.allclose(g, snap[("rodgrid",)].T, rtol=1e-12, atol=0):
                        res.violation("layout", {"what": "rod_grid", "n_eq_dim": n == dim}, f"rod grid stored with shape {g.shape}, expected marker-major ({n},{dim}) element centres")
                    return
                gnames = self._grid_names(spec)
                size = tuple(spec["grid"]["size"]) if spec["grid"] else None
                for fld in spec["efields"]:
                    src = snap[("e", fld["name"])]
                    if fld["kind"] == "scalar":
                        ds = self._find(h, "Eulerian", fld["name"])
                        if ds is None or ds.shape != (1, *size) or _bits(ds[...]) != _bits(src):
                            res.violation("layout", {"what": "eulerian_scalar"}, f"Eulerian scalar {fld['name']}: dataset {None if ds is None else ds.shape}, expected (1,*grid) with the field's bytes")
                    else:
                        for c in range(dim):
                            ds = self._find(h, "Eulerian", f"{fld['name']}_{c}")
                            if ds is None or ds.shape != (1, *size) or _bits(ds[...]) != _bits(src[c]):
                                res.violation("layout", {"what": "eulerian_vector"}, f"Eulerian vector {fld['name']} component {c}: dataset {None if ds is None else ds.shape}, expected (1,*grid) holding component {c}")
                dups = self._dup_names(spec)
                for gi, g in enumerate(spec["lgrids"]):
                    n = g["n"]
                    grp = h["Lagrangian"].get(gnames[gi])
                    ds = None if grp is None else grp.get("Grid")
                    if ds is None or ds.shape != (n, dim) or _bits(ds[...]) != _bits(snap[("g", gi)].T):
                        res.violation("layout", {"what": "lag_grid", "n_eq_dim": n == dim}, f"grid {gnames[gi]}: dataset {None if ds is None else ds.shape}, expected marker-major ({n},{dim})")
                    for fi, fld in enumerate(g["fields"]):
                        dup = fld["name"] in dups
                        src = snap[("l", gi, fi)]
                        ds = self._find(h, f"Lagrangian/{gnames[gi]}", fld["name"])
                        if fld["kind"] == "vector":
                            ok = ds is not None and ds.shape == (n, dim) and _bits(ds[...]) == _bits(src.T)
                            if not ok:
                                res.violation(
                                    "layout",
                                    {"what": "lag_vector", "n_eq_dim": n == dim, "dup_field": dup},
                                    f"Lagrangian vector {fld['name']} on {gnames[gi]} (N={n}, dim={dim}): dataset {None if ds is None else (ds.name, ds.shape)} is not the marker-major (N, dim) transpose of the field",
                                )
                        else:
                            ok = ds is not None and ds.shape == (n,) and _bits(ds[...]) == _bits(src)
                            if not ok:
                                res.violation("layout", {"what": "lag_scalar", "dup_field": dup}, f"Lagrangian scalar {fld['name']} on {gnames[gi]}: dataset {None if ds is None else ds.shape}, expected ({n},)")

        readers = {}

        def load(j, f, tag, reuse=False):
            """Reader built from spec j (fresh, or a long-lived one reused) loads file f; full oracle."""
            nonlocal did_load
            spec = specs[j]
            T = truth[f]
            wspec = writers[T["writer"]]["spec"]
            F = T["model"]
            present = (set(F.datasets) - T["deleted"])
            if reuse and j in readers:
                io, arrs, extra = readers[j]
                for a in arrs.values():
                    a[...] = SENTINEL  # freshly allocated content, same long-lived reader object
                if spec["cls"] == "CosseratRodIO":
                    io.rod_element_position[...] = SENTINEL
                    extra["rod"].radius[...] = SENTINEL
                res.probe("reader_object_reused")
            else:
                arrs = self._alloc(spec, dim, real_t)
                io, extra = self._build(spec, dim, real_t, arrs, rod_variant=1)
                readers[j] = (io, arrs, extra)
            raised = None
            t_ret = None
            try:
                t_ret = io.load(h5_file_name=path_of(f))
            except Exception as e:  # noqa: BLE001
                raised = e
            res.add_sim("file_ops", 1)
            did_load = True
            same_reg = j == T["writer"] or (spec.get("of") == T["writer"])
            items = self._items(spec, dim)
            witems = {k: (kind, alts) for k, kind, alts in self._items(wspec, dim)}
            # which registered items does the file hold, by documented path?
            lacking, available = [], []
            for key, kind, alts in items:
                got = [a for a in alts if all(p in present for p in a)]
                if not got:
                    lacking.append(key)
                    continue
                # content obligation only when the writer had the same item (same key, kind, shape)
                if same_reg and key in witems and witems[key][0] == kind and key in T["snap"]:
                    available.append((key, kind))
            has_e = bool(spec["efields"]) and spec["cls"] != "CosseratRodIO"
            params_ok = True
            params_far = False
            if has_e:
                pa = {k: F.attrs.get(("Eulerian/Parameters", k)) for k in ("origin", "dx", "grid_size")}
                if any(v is None for v in pa.values()) or "params" in T["deleted"]:
                    params_ok = False
                else:
                    # the reader's own definition of its grid (public attributes); for EulerianFieldIO it is
                    # derived from a real_t position field, exactly as the writer derived the stored one
                    mine = {"origin": np.asarray(io.eulerian_origin, dtype=float), "dx": np.asarray(io.eulerian_dx, dtype=float), "grid_size": np.asarray(io.eulerian_grid_size)}
                    same_shape = all(np.shape(pa[k]) == mine[k].shape for k in mine)
                    params_ok = same_shape and all(np.array_equal(mine[k], np.asarray(pa[k], dtype=mine[k].dtype)) for k in mine)
                    if not params_ok:
                        # "differ" in the sense of the statement: far above any rounding-level tolerance
                        def far(a, b):
                            a, b = np.asarray(a, dtype=float), np.asarray(b, dtype=float)
                            return bool(np.any(np.abs(a - b) > 100.0 * (1e-8 + 1e-5 * np.maximum(np.abs(a), np.abs(b)))))

                        params_far = (not same_shape) or any(far(mine[k], pa[k]) for k in mine)
            has_time = ("", "time") in F.attrs
            nothing_registered = not items
            grids_only = spec["cls"] == "IO" and spec["lgrids"] and not any(g["fields"] for g in spec["lgrids"])
            sig_base = {"reader": spec["cls"], "mutation": spec.get("mutation"), "fault": tag, "h5_suffix": f.endswith(".h5"), "grids_only": bool(grids_only), "dup_names": self._has_duplicate_lag_names(spec)}
            if raised is None:
                # ---- returned normally
                if lacking:
                    res.violation(
                        "accepted_file_lacking_registered_item",
                        dict(sig_base, item=str(lacking[0][0])),
                        f"load of {f} returned normally although the file lacks registered item {lacking[0]} (present datasets: {sorted(present)[:8]})",
                    )
                if has_e and params_far:
                    res.violation("accepted_mismatching_parameters", sig_base, f"load of {f} returned normally although Eulerian origin/dx/grid_size differ (reader mutation {spec.get('mutation')})")
                for key, kind in available:
                    if spec["cls"] == "CosseratRodIO" and key[0] == "rx":
                        want = T["snap"][key]
                        got = arrs[key]
                    elif spec["cls"] == "CosseratRodIO":
                        want = T["snap"][key]
                        got = io.rod_element_position if key == ("rodgrid",) else extra["rod"].radius
                        if key == ("rodgrid",):
                            # bit-exact w.r.t. what the file holds
                            stored = F.datasets.get("Lagrangian/rod/Grid")
                            want = stored.T if stored is not None else want
                    else:
                        want = T["snap"][key]
                        got = arrs[key]
                    if want.shape != got.shape:
                        continue
                    if _bits(want.astype(got.dtype, copy=False)) != _bits(got):
                        nbad = int(np.sum(np.ascontiguousarray(want).view(np.uint8) != np.ascontiguousarray(got).view(np.uint8)))
                        dupf = key[0] == "l" and spec["lgrids"][key[1]]["fields"][key[2]]["name"] in self._dup_names(spec)
                        res.violation(
                            "roundtrip_not_bit_exact",
                            dict(sig_base, item=str(key[0]), kind=kind, dup_field=dupf),
                            f"after load of {f}, registered {kind} {key} differs from the saved bytes ({nbad} bytes differ; first values got={np.ravel(got)[:3]}, want={np.ravel(want)[:3]})",
                        )
                if has_time and not nothing_registered:
                    if t_ret is None or np.float64(t_ret).tobytes() != np.float64(T["time"]).tobytes():
                        res.violation("roundtrip_not_bit_exact", dict(sig_base, item="time"), f"load returned time {t_ret!r}, saved {T['time']!r}")
                res.probe("load_accepted_complete" if not lacking else "load_accepted_incomplete")
            else:
                # ---- raised
                # the reader describes the same physical grid as the writer (registration specs, z-y-x origin):
                # what the file stores for it is the implementation's business
                grid_same = (not has_e) or (spec.get("grid") == wspec.get("grid"))
                lost_params = has_e and any(F.attrs.get(("Eulerian/Parameters", k)) is None for k in ("origin", "dx", "grid_size"))
                must_accept = same_reg and not lacking and grid_same and not lost_params and has_time and spec.get("mutation") is None and (j == T["writer"] or spec.get("cross_of") == T["writer"]) and not T["deleted"]
                if must_accept and T["ack"] and tag in ("none", "recovery"):
                    res.violation(
                        "rejected_matching_file",
                        sig_base,
                        f"load of complete matching file {f} raised {type(raised).__name__}: {raised}",
                    )
                res.probe("load_rejected_incomplete" if (lacking or params_far or not has_time) else "load_rejected_other")
            if spec.get("cross_of") is not None:
                res.probe("cross_class_reader")
            if spec.get("mutation"):
                res.probe("param_mismatch_reader" if spec["mutation"] in ("origin", "dx", "size") else "extra_item_reader")
            if j != T["writer"] and spec.get("of") != T["writer"]:
                res.probe("foreign_file")
            res.log.event("load", io=j, file=f, raised=None if raised is None else type(raised).__name__, tag=tag)
            for k in sorted(arrs, key=str):
                res.log.array(str(k), arrs[k])
            res.log.state("load", spec["cls"], spec.get("mutation"), tag, raised is None, len(lacking), sorted(str(x[0]) for x in items))

        for oi, op in enumerate(program["ops"]):
            kind = op["op"]
            if kind == "fill":
                i = op["io"] % nw
                w = writers[i]
                for k, a in w["arrs"].items():
                    a[...] = prng.smooth_field(op["sub"], a.shape, a.dtype.type, 1.0, str(k))
                    if op.get("signed_zero"):
                        # a field at rest: nothing but zeros, some of them negative (bit-exactness includes the sign)
                        gz = prng.np_rng(op["sub"], "zero", str(k))
                        a[...] = np.where(gz.random(a.shape) < 0.5, 0.0, -0.0).astype(a.dtype)
                        res.probe("all_zero_field_with_negative_zeros")
                    if op.get("special"):
                        g = prng.np_rng(op["sub"], "special", str(k))
                        flat = a.reshape(-1)
                        nsp = max(1, flat.size // 3)
                        idx = g.integers(0, flat.size, size=nsp)
                        flat[idx] = _special_values(a.dtype.type, nsp, g)
                        res.probe("special_values")
                if w["spec"]["cls"] == "CosseratRodIO":
                    rod = w["extra"]["rod"]
                    g = prng.np_rng(op["sub"], "rodfill")
                    rod.position_collection[...] += 0.01 * g.standard_normal(rod.position_collection.shape)
                    rod.radius[...] = 0.05 * (1.0 + g.random(rod.radius.shape))
                res.log.event("fill", io=i)
            elif kind == "save":
                i = op["io"] % nw
                f, t, fault = op["file"], op["time"], op["fault"]
                # the time stamp handed in may be any real scalar (a simulator's clock is often a numpy scalar)
                t = {"float": float, "f32": np.float32, "f64": np.float64, "int": lambda x: int(x)}[op.get("ttype", "float")](t)
                did_save = True
                if fault in ("crash_all", "lose_all"):
                    dry = h5sim.FaultPlan()
                    save(i, f, t, dry)
                    W = dry.count
                    for wix in range(W):
                        plan = h5sim.FaultPlan(crash_at=wix) if fault == "crash_all" else h5sim.FaultPlan(lose=wix)
                        ack = save(i, f, t, plan)
                        if fault == "crash_all":
                            res.probe("crash_points_enumerated")
                            if ack:
                                res.probe("crash_swallowed_by_save")
                        else:
                            res.probe("lost_writes_enumerated")
                        load(i, f, "crash" if fault == "crash_all" else "lost")
                    # bounded recovery: same IO object, next fault-free attempt
                    save(i, f, t, h5sim.FaultPlan())
                    layout_check(i, f)
                    load(i, f, "recovery")
                    res.probe("recovery_after_failed_save")
                    res.log.event("save_enum", io=i, file=f, fault=fault, writes=W)
                else:
                    if isinstance(fault, dict) and "crash" in fault:
                        plan = h5sim.FaultPlan(crash_at=fault["crash"])
                    elif isinstance(fault, dict) and "lose" in fault:
                        plan = h5sim.FaultPlan(lose=fault["lose"])
                    else:
                        plan = h5sim.FaultPlan()
                    ack = save(i, f, t, plan)
                    if ack and not plan.fired:
                        layout_check(i, f)
                    res.log.event("save", io=i, file=f, ack=ack, writes=plan.count, fired=sorted(plan.fired))
                    truth[f]["tag"] = "none" if not plan.fired else ("crash" if "crash_in_save" in plan.fired else "lost")
            elif kind == "load":
                f = op["file"]
                if f not in truth:
                    continue
                load(op["io"] % len(specs), f, truth[f].get("tag", "none"), reuse=bool(op.get("reuse")))
            elif kind == "move_file":
                src, dst = op["src"], op["dst"]
                if src in truth and os.path.exists(path_of(src)):
                    os.replace(path_of(src), path_of(dst))
                    truth[dst] = truth.pop(src)
                    res.fault("file_moved_into_place")
                    res.probe("file_moved_into_place")
                    res.log.event("move_file", src=src, dst=dst)
            elif kind == "delete":
                f = op["file"]
                if f not in truth:
                    continue
                T = truth[f]
                cands = sorted(set(T["model"].datasets) - T["deleted"])
                if not cands:
                    continue
                victim = cands[op["pick"] % len(cands)]
                if T.get("destroyed"):
                    continue
                try:
                    with h5py.File(path_of(f), "a") as h:
                        if victim in h:
                            del h[victim]
                except OSError:
                    continue  # not an HDF5 file any more: reported by the layout / load oracles
                T["deleted"].add(victim)
                T["tag"] = "deleted"
                res.fault("post_hoc_delete")
                res.probe("post_hoc_delete")
                res.log.event("delete", file=f, victim=victim)
        res.nontrivial = did_save and did_load

    @staticmethod
    def _find(h, top, leaf):
        """Find dataset named `leaf` anywhere under group path `top` (tolerant of Scalar/Vector group naming)."""
        found = []
        if top not in h:
            return None

        def visit(name, obj):
            import h5py

            if isinstance(obj, h5py.Dataset) and name.split("/")[-1] == leaf:
                found.append(obj)

        h[top].visititems(visit)
        return found[0] if found else None

    # ------------------------------------------------------------------ shrinking
    def repair(self, program):
        # a keyword can appear only once per registration call
        for s in program["specs"]:
            for g in s["lgrids"]:
                seen, keep = set(), []
                for f in g["fields"]:
                    if f["name"] not in seen:
                        seen.add(f["name"])
                        keep.append(f)
                g["fields"] = keep
        return program

    def simplify(self, program):
        # enumerating faults -> no fault; special -> plain; drop reader-only specs; drop fields
        for oi, o in enumerate(program["ops"]):
            if o["op"] == "save" and o["fault"] is not None:
                c = copy.deepcopy(program)
                c["ops"][oi]["fault"] = None
                yield c
            if o["op"] == "fill" and o.get("special"):
                c = copy.deepcopy(program)
                c["ops"][oi]["special"] = False
                yield c
            if o["op"] == "save" and o["time"] != 0.0:
                c = copy.deepcopy(program)
                c["ops"][oi]["time"] = 0.0
                yield c
        for si, s in enumerate(program["specs"]):
            if s.get("layout", "C") != "C":
                c = copy.deepcopy(program)
                c["specs"][si]["layout"] = "C"
                yield c
            for fi in range(len(s["efields"])):
                c = copy.deepcopy(program)
                del c["specs"][si]["efields"][fi]
                if c["specs"][si]["cls"] == "EulerianFieldIO" and not c["specs"][si]["efields"]:
                    continue
                yield c
            for gi, g in enumerate(s["lgrids"]):
                c = copy.deepcopy(program)
                del c["specs"][si]["lgrids"][gi]
                yield c
                for fi in range(len(g["fields"])):
                    c = copy.deepcopy(program)
                    del c["specs"][si]["lgrids"][gi]["fields"][fi]
                    yield c
                if g["n"] > 2:
                    c = copy.deepcopy(program)
                    c["specs"][si]["lgrids"][gi]["n"] = 2 if program["dim"] != 2 else 3
                    yield c
                if g["connect"]:
                    c = copy.deepcopy(program)
                    c["specs"][si]["lgrids"][gi]["connect"] = False
                    yield c
            if s["grid"] and not s["efields"] and s["cls"] == "IO":
                c = copy.deepcopy(program)
                c["specs"][si]["grid"] = None
                yield c
        if program["precision"] == "single":
            c = copy.deepcopy(program)
            c["precision"] = "double"
            yield c


CHECK = C17()
