"""C10 - virtual-boundary feedback is the documented PI law over any call history.

Simulated system: 1-3 real ImmersedBodyFlowInteraction objects (real
VirtualBoundaryForcing, communicators, numba kernels) sharing one Eulerian forcing
field and one flow velocity array owned by the harness (the "simulator" peer).
The seeded scheduler picks body and op at every step; after every op every body
is compared with the executable PI model (models/pi_law.py) and the invariants
(read-only flow/body state, accumulate vs reset, superposition) are evaluated.
"""

from __future__ import annotations

import copy

import numpy as np

from .. import prng
from ..driver import Check
from ..models.pi_law import PIModel

FLOW = {
    2: [{"shape": [12, 16], "x_range": 1.0}, {"shape": [16, 12], "x_range": 0.6}],
    3: [{"shape": [8, 10, 12], "x_range": 1.2}, {"shape": [10, 8, 12], "x_range": 1.0}],
}
PROG_N = {2: [1, 3, 6, 10, 600], 3: [1, 3, 9, 12, 600]}
BODY_KINDS = {
    2: [("prog", 8), ("cylinder", 2), ("rod_nodal", 1), ("rod_elem", 1), ("rod_edge", 1)],
    3: [("prog", 8), ("sphere", 2), ("plane", 1), ("rod_nodal", 1), ("rod_surface", 1)],
}
STIFFNESS = [-5.0e4, -1.0e3, 200.0, -1.0]
DAMPING = [-20.0, -1.0, 0.0, 3.0]
EVAL_KINDS = ["call", "call", "forces", "lag", "flowforces"]
QUERY_OPS = ["deviation"]


def _real_t(precision):
    return np.float32 if precision == "single" else np.float64


def all_combos():
    """Every (dim, precision, flow index, body kind, N) the generator can draw: warm-up set."""
    out = []
    for dim in (2, 3):
        for precision in ("single", "double"):
            for fi in range(len(FLOW[dim])):
                for kind, _ in BODY_KINDS[dim]:
                    ns = PROG_N[dim] if kind == "prog" else [None]
                    for n in ns:
                        out.append((dim, precision, fi, kind, n))
    return out


class C10(Check):
    prop_id = "C10"
    level = "exploration"
    technique = "deterministic simulation: seeded multi-body call histories (scheduler picks body and op), op-by-op refinement against an executable PI-controller model plus read-only / accumulate / reset invariants"
    rule = (
        "a case is one history (flow grid, 1-3 bodies sharing one forcing field, op list of evaluate/forces/lag/time_step/move/flow/consume) drawn from VERIF_SEED; "
        "non-trivial = at least one time_step with non-zero mismatch followed by an evaluation; distinct = distinct canonical JSON"
    )
    assumptions = [
        "interpolated velocity U is taken kernel-agnostically: the uniform value for uniform flows, otherwise the public lag_grid_flow_velocity_field (delta-kernel content is C06/C07)",
        "marker positions stay at least 2.5 cells inside the domain (SophT has no boundary handling for the 4-cell support)",
        "tolerances are rounding-scaled: 16*eps(real_t)*(steps+1)*(|k'| X_scale + |c'| |V|)",
        "numba kernels run compiled (serial by construction); (dx, N) drawn from a pool so the JIT cache can be warmed",
    ]
    components = {
        "real": [
            "ImmersedBodyFlowInteraction / RigidBodyFlowInteraction / CosseratRodFlowInteraction",
            "VirtualBoundaryForcing (all five pipeline stages, reset and accumulate variants, time_step)",
            "EulerianLagrangianGridCommunicator2D/3D numba kernels",
            "forcing grids: harness subclass of ImmersedBodyForcingGrid (public extension point), CircularCylinder, Sphere, RectangularPlane, CosseratRod nodal/element-centric/edge/surface on real elastica bodies",
        ],
        "stub": ["flow simulator peer: the harness owns the velocity array, changes it and zeroes the forcing field ('consume')"],
    }
    required_probes = [
        "step_with_nonzero_mismatch", "step_with_zero_mismatch", "repeated_eval_without_step", "two_bodies_spread_into_nonzero_field",
        "overlapping_supports", "reset_eval_into_dirty_field", "dt_ratio_ge_100", "step_before_any_eval", "uniform_flow_eval", "generic_flow_eval", "prelude_world_with_other_dx", "non_contiguous_eulerian_fields", "deviation_query", "many_markers", "linear_flow_eval", "creeping_body", "fresh_object_interpolation_probe", "simulator_finalised_after_interactor", "forces_through_flowforces",
    ]
    tiers = {
        "quick": {"runs": 480, "batch": 6, "timeout": 600},
        "thorough": {"runs": 20000, "batch": 10, "timeout": 900},
    }
    selftest_runs = {"quick": 12, "thorough": 120}

    # ------------------------------------------------------------------ warm-up
    def warmup(self, tier):
        from ..seams import install

        install()
        import elastica  # noqa: F401
        import sopht.simulator  # noqa: F401

    def warm_if_stale(self, workers):
        import time as _time

        from ..driver import fork_map

        combos = all_combos()
        sample = [combos[0], combos[len(combos) // 2], combos[-1]]
        fn = self.warm_combo

        def timed(c):
            t0 = _time.monotonic()
            fn(c)
            return _time.monotonic() - t0

        slow = [x for x in fork_map(timed, sample, 3, 900) if x[1] != "ok" or x[2] > 15.0]
        if slow:
            print(f"JIT caches look stale ({len(slow)} of {len(sample)} sample configurations slow): re-warming")
            self.warm_all(workers)

    def warm_all(self, workers):
        """Populate the numba on-disk cache for every (dx, N) the generator can draw."""
        from ..driver import fork_map

        combos = all_combos()
        bad = [x for x in fork_map(self.warm_combo, combos, workers, 900) if x[1] != "ok"]
        # second, sequential pass repairs index entries lost to concurrent writers
        # second parallel pass: near-free when cached, recompiles entries lost to concurrent index writers
        bad += [x for x in fork_map(self.warm_combo, combos, workers, 1500) if x[1] != "ok"]
        return bad

    def warm_combo(self, combo):
        dim, precision, fi, kind, n = combo
        prog = {
            "dim": dim, "precision": precision, "flow": fi, "reset": False,
            "bodies": [{"kind": kind, "n": n, "k": -1.0e3, "c": -1.0, "hfac": 1.0, "sub": 1, "t0": 0.0}],
            "ops": [{"op": "flow", "uniform": [0.5] * dim}, {"op": "call", "body": 0}, {"op": "step", "body": 0, "dt": 0.1}, {"op": "forces", "body": 0}, {"op": "lag", "body": 0}],
        }
        from ..oplog import Result

        for reset in (False, True):
            prog["reset"] = reset
            self.execute(prog, Result())
        if kind == "prog":
            prog["padded"] = True
            self.execute(prog, Result())
            prog["padded"] = False
            for sf in (0.25, 0.0):
                prog["shift_frac"] = sf
                self.execute(prog, Result())

    # ------------------------------------------------------------------ program
    def draw(self, rng, tier, run):
        dim = rng.choice([2, 2, 3])
        precision = rng.choice(["single", "double"])
        fi = rng.randrange(len(FLOW[dim]))
        nb = prng.weighted_choice(rng, [(1, 4), (2, 4), (3, 2)])
        reset = nb == 1 and rng.random() < 0.5
        explicit = rng.random() < 0.5
        bodies = []
        for _ in range(nb):
            kind = prng.weighted_choice(rng, BODY_KINDS[dim])
            bodies.append(
                {
                    "kind": kind,
                    "n": (600 if rng.random() < 0.06 else rng.choice(PROG_N[dim][:-1])) if kind == "prog" else None,
                    "k": rng.choice(STIFFNESS),
                    "c": rng.choice(DAMPING),
                    "hfac": rng.choice([0.5, 1.0, 1.7, 0.9]),
                    "sub": prng.sub_seed(rng),
                    "t0": rng.choice([0.0, 0.0, 1.25, 3.0e6, 1.0e9]),
                    # reset mode is a per-interaction option: with several bodies a resetting one
                    # overwrites whatever the others spread before it
                    "reset": (rng.random() < 0.25) if nb > 1 else reset,
                    "explicit_args": explicit,
                    "num_threads": rng.choice([False, False, 2]),
                    "prestrain": rng.choice([1.0, 1.0, 1.25, 0.85]),
                    "axis_down": rng.random() < 0.4,
                    "finalize_after": rng.random() < 0.4,
                }
            )
        ops = []
        n_ops = rng.randint(4, 40) if tier != "thorough" or rng.random() < 0.8 else rng.randint(80, 200)
        style = rng.choice(["mixed", "mixed", "coupled_loop", "eval_heavy"])
        if rng.random() < 0.3:
            ops.append({"op": "step", "body": rng.randrange(nb), "dt": 0.1})  # time step before any evaluation
        for i in range(n_ops):
            b = rng.randrange(nb)
            if style == "coupled_loop":
                # the order used by the examples: (step, eval)* per body, then consume
                dt = 10 ** rng.uniform(-4, 0)
                for bb in range(nb):
                    ops.append({"op": "forces", "body": bb})
                    ops.append({"op": "step", "body": bb, "dt": dt})
                for bb in range(nb):
                    ops.append({"op": "call", "body": bb})
                ops.append({"op": "consume"})
                if rng.random() < 0.3:
                    ops.append({"op": "deviation", "body": b})
                if rng.random() < 0.5:
                    ops.append(rng.choice([{"op": "flow", "sub": prng.sub_seed(rng)}, {"op": "flow", "uniform": [rng.uniform(-2, 2) for _ in range(dim)]}, {"op": "flow", "linear": {"a": [rng.uniform(-1, 1) for _ in range(dim)], "B": [[rng.uniform(-3, 3) for _ in range(dim)] for _ in range(dim)]}}]))
                if rng.random() < 0.5:
                    ops.append({"op": "move", "body": b, "sub": prng.sub_seed(rng)} if rng.random() < 0.5 else {"op": "creep", "body": b, "sub": prng.sub_seed(rng), "size": rng.choice([1e-6, 1e-9, 1e-4])})
                if len(ops) > (60 if n_ops <= 40 else 400):
                    break
                continue
            r = rng.random()
            if rng.random() < 0.08:
                ops.append({"op": "deviation", "body": b})  # public read-only diagnostic
            w_eval = 0.6 if style == "eval_heavy" else 0.35
            if r < w_eval:
                ops.append({"op": rng.choice(EVAL_KINDS), "body": b})
            elif r < w_eval + 0.25:
                ops.append({"op": "step", "body": b, "dt": 10 ** rng.uniform(-4, 1)})
            elif r < w_eval + 0.37:
                ops.append({"op": "move", "body": b, "sub": prng.sub_seed(rng)} if rng.random() < 0.6 else {"op": "creep", "body": b, "sub": prng.sub_seed(rng), "size": rng.choice([1e-6, 1e-9, 1e-4])})
            elif r < w_eval + 0.52:
                rr = rng.random()
                if rr < 0.4:
                    ops.append({"op": "flow", "uniform": [rng.choice([0.0, 1.0, -0.75, 2.5]) for _ in range(dim)]})
                elif rr < 0.7:
                    ops.append({"op": "flow", "linear": {"a": [rng.uniform(-1, 1) for _ in range(dim)], "B": [[rng.uniform(-3, 3) for _ in range(dim)] for _ in range(dim)]}})
                else:
                    ops.append({"op": "flow", "sub": prng.sub_seed(rng)})
            else:
                ops.append({"op": "consume"})
        prog = {"dim": dim, "precision": precision, "flow": fi, "reset": reset, "bodies": bodies, "ops": ops, "fresh_probe": rng.random() < 0.5}
        if all(b["kind"] == "prog" for b in bodies) and rng.random() < 0.2:
            prog["padded"] = True
        if all(b["kind"] == "prog" for b in bodies) and rng.random() < 0.15:
            prog["shift_frac"] = rng.choice([0.25, 0.0])  # 0.0: node-centred grid
        if rng.random() < 0.25:
            b0 = dict(bodies[0], sub=prng.sub_seed(rng), reset=False)
            prog["prelude"] = {
                "dim": dim, "precision": precision, "flow": (fi + 1) % len(FLOW[dim]), "reset": False, "bodies": [b0],
                "ops": [{"op": "flow", "uniform": [0.8, -0.6, 0.3][:dim]}, {"op": "call", "body": 0}, {"op": "step", "body": 0, "dt": 0.05}, {"op": "forces", "body": 0}, {"op": "consume"}],
            }
        return prog

    # ------------------------------------------------------------------ bodies
    def _make_body(self, spec, bi, dim, real_t, dx, lengths, forcing, velocity, reset):
        """Returns dict with interaction, twin, model, body-state arrays, mover."""
        import elastica as ea
        import sopht.simulator as sps
        from sopht.simulator.immersed_body import ImmersedBodyFlowInteraction, ImmersedBodyForcingGrid

        kind = spec["kind"]
        g = prng.np_rng(spec["sub"], "body", bi)
        lo = 2.5 * dx
        hi = np.array([lengths[ax] - 2.5 * dx for ax in range(dim)])  # x, y(, z)
        centre = np.array([0.5 * lengths[ax] for ax in range(dim)])
        state_arrays = {}
        common = dict(
            virtual_boundary_stiffness_coeff=spec["k"], virtual_boundary_damping_coeff=spec["c"], dx=dx, grid_dim=dim, real_t=real_t, start_time=spec["t0"],
            num_threads=spec.get("num_threads", False),
        )
        if spec.get("explicit_args"):
            # the documented defaults, passed explicitly: exercises the positional pass-through of the subclasses
            common.update(eul_grid_coord_shift=real_t(dx / 2), interp_kernel_width=2)
        if float(spec.get("shift_frac", 0.5)) != 0.5:
            # a grid whose first cell centre sits at shift_frac * dx instead of dx / 2 (public parameter)
            common.update(eul_grid_coord_shift=real_t(spec["shift_frac"] * dx))
        reset = bool(spec.get("reset", reset))

        def build(enable_reset, forcing_field):
            kw = dict(common, eul_grid_forcing_field=forcing_field, eul_grid_velocity_field=velocity, enable_eul_grid_forcing_reset=enable_reset)
            if kind == "prog":
                return ImmersedBodyFlowInteraction(
                    body_flow_forces=np.zeros((3, 1)), body_flow_torques=np.zeros((3, 1)), forcing_grid_cls=ProgGrid, num_lag_nodes=n, state=st, **kw
                )
            if kind in ("cylinder", "sphere", "plane"):
                return sps.RigidBodyFlowInteraction(rigid_body=body, forcing_grid_cls=grid_cls, **kw, **grid_kw)
            return sps.CosseratRodFlowInteraction(cosserat_rod=body, forcing_grid_cls=grid_cls, **kw, **grid_kw)

        if kind == "prog":
            n = spec["n"]
            h_max = spec["hfac"] * dx
            st = {"pos": np.zeros((dim, n)), "vel": np.zeros((dim, n)), "hmax": h_max}
            ProgGrid = _prog_grid_cls(ImmersedBodyForcingGrid)  # noqa: N806

            def move(sub):
                gg = prng.np_rng(sub, "move")
                for ax in range(dim):
                    st["pos"][ax] = lo + (hi[ax] - lo) * gg.random(n)
                st["vel"][...] = gg.standard_normal((dim, n)) * (0.0 if gg.random() < 0.25 else 1.0)  # sometimes a body at rest

            state_arrays = {"pos": st["pos"], "vel": st["vel"]}
        elif kind == "cylinder":
            radius = 2.0 * dx
            n = 6 if g.random() < 0.5 else 10
            zdir = -1.0 if spec.get("axis_down") else 1.0  # a planar body may have its axis along -z
            body = ea.Cylinder(start=np.array([centre[0], centre[1], 0.0 if zdir > 0 else 1.0]), direction=np.array([0.0, 0.0, zdir]), normal=np.array([1.0, 0.0, 0.0]), base_length=1.0, base_radius=radius, density=1.0)
            Q0 = body.director_collection[:, :, 0].copy()
            grid_cls, grid_kw = sps.CircularCylinderForcingGrid, {"num_forcing_points": n}
            h_max = radius * 2.0 * np.pi / n

            def move(sub):
                gg = prng.np_rng(sub, "move")
                for ax in range(2):
                    body.position_collection[ax, 0] = (lo + radius) + (hi[ax] - lo - 2 * radius) * gg.random()
                body.velocity_collection[:2, 0] = gg.standard_normal(2)
                body.omega_collection[2, 0] = gg.standard_normal()
                th = gg.uniform(0, 2 * np.pi)
                Rz = np.array([[np.cos(th), -np.sin(th), 0.0], [np.sin(th), np.cos(th), 0.0], [0.0, 0.0, 1.0]])
                body.director_collection[:, :, 0] = Q0 @ Rz.T  # rows are the body axes d1, d2, d3 turned about z

            state_arrays = {"p": body.position_collection, "v": body.velocity_collection, "w": body.omega_collection, "Q": body.director_collection}
        elif kind == "sphere":
            radius = 1.5 * dx
            body = ea.Sphere(center=centre.copy(), base_radius=radius, density=1.0)
            grid_cls, grid_kw = sps.SphereForcingGrid, {"num_forcing_points_along_equator": 6}
            n = 9
            h_max = radius * 2.0 * np.pi / 6

            def move(sub):
                gg = prng.np_rng(sub, "move")
                for ax in range(3):
                    body.position_collection[ax, 0] = (lo + radius) + (hi[ax] - lo - 2 * radius) * gg.random()
                body.velocity_collection[:, 0] = gg.standard_normal(3)
                body.omega_collection[:, 0] = gg.standard_normal(3)

            state_arrays = {"p": body.position_collection, "v": body.velocity_collection, "w": body.omega_collection, "Q": body.director_collection}
        elif kind == "plane":
            length = 3.0 * dx
            body = sps.RectangularPlane(origin=centre.copy(), plane_normal=np.array([0.0, 0.0, 1.0]), plane_tangent_along_length=np.array([1.0, 0.0, 0.0]), plane_length=length, plane_breadth=0.75 * length)
            grid_cls, grid_kw = sps.RectangularPlaneForcingGrid, {"num_forcing_points_along_length": 4}
            n = 12
            h_max = length / 4
            half = 0.5 * np.hypot(length, 0.75 * length)

            def move(sub):
                gg = prng.np_rng(sub, "move")
                for ax in range(3):
                    body.position_collection[ax, 0] = (lo + half) + (hi[ax] - lo - 2 * half) * gg.random()
                body.velocity_collection[:, 0] = gg.standard_normal(3)
                body.omega_collection[:, 0] = gg.standard_normal(3) * (0.0 if gg.random() < 0.4 else 1.0)  # re-oriented while not spinning
                q, _ = np.linalg.qr(gg.standard_normal((3, 3)))
                if np.linalg.det(q) < 0:
                    q[0] *= -1
                body.director_collection[:, :, 0] = q

            state_arrays = {"p": body.position_collection, "v": body.velocity_collection, "w": body.omega_collection, "Q": body.director_collection}
        else:
            # Cosserat rods, straight along x through the centre
            n_elems = {"rod_nodal": 5 if dim == 2 else 8, "rod_elem": 6, "rod_edge": 2, "rod_surface": 3}[kind]
            base_length = float(min(lengths[0] - 8.0 * dx, 4.0 * dx * (1 + 0.0)))
            start = np.zeros(3)
            start[:dim] = centre
            start[0] -= 0.5 * base_length
            body = ea.CosseratRod.straight_rod(
                n_elems, start=start, direction=np.array([1.0, 0.0, 0.0]), normal=np.array([0.0, 0.0, 1.0]) if dim == 2 else np.array([0.0, 1.0, 0.0]),
                base_length=base_length, base_radius=0.5 * dx, density=1.0, youngs_modulus=1e4, shear_modulus=1e4 / 1.5,
            )
            grid_kw = {}
            if kind == "rod_nodal":
                grid_cls, n = sps.CosseratRodNodalForcingGrid, n_elems + 1
                h_max = base_length / n_elems
            elif kind == "rod_elem":
                grid_cls, n = sps.CosseratRodElementCentricForcingGrid, n_elems
                h_max = base_length / n_elems
            elif kind == "rod_edge":
                grid_cls, n = sps.CosseratRodEdgeForcingGrid, 3 * n_elems
                h_max = base_length / n_elems
            else:
                grid_cls, n = sps.CosseratRodSurfaceForcingGrid, 9
                grid_kw = {"surface_grid_density_for_largest_element": 3}
                h_max = max(base_length / n_elems, 0.5 * dx * 2.0 * np.pi / 3)
            strain = float(spec.get("prestrain", 1.0))
            if strain != 1.0:
                # the rod is already stretched / compressed when it is coupled (restart from a deformed
                # state, settled under load): current spacing differs from the rest spacing
                x0 = body.position_collection[0, 0]
                body.position_collection[0] = x0 + strain * (body.position_collection[0] - x0) - 0.5 * (strain - 1.0) * base_length
                body.compute_internal_forces_and_torques(np.float64(0.0))  # PyElastica refreshes lengths, radius, tangents
                spacing = float(np.max(np.linalg.norm(np.diff(body.position_collection, axis=1), axis=0)))
                if kind == "rod_surface":
                    h_max = max(spacing, float(np.max(body.radius)) * 2.0 * np.pi / 3)
                else:
                    h_max = spacing
            pos0 = body.position_collection.copy()

            def move(sub):
                gg = prng.np_rng(sub, "move")
                shift = np.zeros(3)
                for ax in range(dim):
                    room_lo = lo + dx - pos0[ax].min()
                    room_hi = hi[ax] - dx - pos0[ax].max()
                    shift[ax] = room_lo + (room_hi - room_lo) * gg.random()
                body.position_collection[...] = pos0 + shift[:, None]
                body.position_collection[:dim] += 0.2 * dx * (gg.random((dim, n_elems + 1)) - 0.5)
                body.velocity_collection[...] = 0.0
                body.velocity_collection[:dim] = gg.standard_normal((dim, n_elems + 1))
                body.omega_collection[...] = 0.0
                if dim == 3:
                    body.omega_collection[...] = gg.standard_normal((3, n_elems))
                else:
                    body.omega_collection[2] = gg.standard_normal(n_elems)

            state_arrays = {"p": body.position_collection, "v": body.velocity_collection, "w": body.omega_collection, "Q": body.director_collection, "r": body.radius}
        move(spec["sub"])
        inter = build(reset, forcing)
        twin_field = np.zeros_like(forcing)
        twin = build(True, twin_field)
        n = int(inter.forcing_grid.num_lag_nodes)
        if spec.get("finalize_after") and kind in ("cylinder", "sphere") or (spec.get("finalize_after") and kind.startswith("rod")):
            # as in the examples: interactors are built first, then the PyElastica simulator is finalised,
            # which re-binds every array of the body to block memory
            class _Sim(ea.BaseSystemCollection):
                pass

            sim_ = _Sim()
            sim_.append(body)
            sim_.finalize()
            state_arrays = {k: getattr(body, {"p": "position_collection", "v": "velocity_collection", "w": "omega_collection", "Q": "director_collection", "r": "radius"}[k]) for k in state_arrays}
            keep_alive = sim_
        else:
            keep_alive = None
        model = PIModel(dim, n, spec["k"], spec["c"], h_max, spec["t0"])
        h_rel = 1.0e-11 if kind.startswith("rod") else 1.0e-15  # elastica regularises rod.lengths at the 1e-13 level
        return {"body_obj": (body if kind != "prog" else None), "keep_alive": keep_alive, "finalized": keep_alive is not None, "rebuild": build, "reset": reset, "h_rel": h_rel, "inter": inter, "twin": twin, "twin_field": twin_field, "model": model, "state": state_arrays, "move": move, "n": n, "kind": kind, "evals_since_step": 0, "ever_eval": False, "dts": []}

    @staticmethod
    def _rigid_marker_velocity(b, it, dim):
        if b["kind"] == "rod_nodal":
            # markers are the rod nodes: their velocity is the rod's current nodal velocity
            return np.asarray(b["state"]["v"][:dim], dtype=np.float64).copy()
        if b["kind"] not in ("cylinder", "sphere", "plane"):
            return None
        st = b["state"]
        x = np.asarray(it.forcing_grid.position_field, dtype=np.float64)
        if dim == 2:
            r = x - st["p"][:2]
            wz = st["Q"][2, 2, 0] * st["w"][2, 0]
            v = np.empty_like(x)
            v[0] = st["v"][0, 0] - wz * r[1]
            v[1] = st["v"][1, 0] + wz * r[0]
            return v
        r = x - st["p"]
        w = st["Q"][:, :, 0].T @ st["w"][:, 0]
        return st["v"] + np.cross(w, r.T).T

    # ------------------------------------------------------------------ execute
    def execute(self, program, res):
        from ..seams import install

        install()
        if program.get("prelude"):
            # another simulation lived in this process before (other grid spacing, same marker
            # counts): nothing of it may leak into the objects of the main program
            res.probe("prelude_world_with_other_dx")
            self._execute_world(program["prelude"], res)
            res.log.event("prelude_done")
        self._execute_world(program, res)

    def _execute_world(self, program, res):
        dim = program["dim"]
        real_t = _real_t(program["precision"])
        eps = float(np.finfo(real_t).eps)
        tiny = float(np.finfo(real_t).tiny)
        fl = FLOW[dim][program["flow"] % len(FLOW[dim])]
        shape = tuple(fl["shape"])
        dx = real_t(fl["x_range"] / shape[-1])
        lengths = [float(dx) * shape[dim - 1 - ax] for ax in range(dim)]  # x, y, z extents
        if program.get("padded"):
            # the simulator peer keeps halo-padded storage: the fields handed to the interaction are
            # interior windows (non-contiguous views) of larger arrays
            vel_carrier = np.zeros((dim, *[n + 2 for n in shape]), dtype=real_t)
            forc_carrier = np.zeros((dim, *[n + 4 for n in shape]), dtype=real_t)
            velocity = vel_carrier[(slice(None), *[slice(1, 1 + n) for n in shape])]
            forcing = forc_carrier[(slice(None), *[slice(2, 2 + n) for n in shape])]
            res.probe("non_contiguous_eulerian_fields")
        else:
            velocity = np.zeros((dim, *shape), dtype=real_t)
            forcing = np.zeros((dim, *shape), dtype=real_t)
        reset = bool(program["reset"]) and len(program["bodies"]) == 1
        shift_frac = float(program.get("shift_frac", 0.5))
        bodies = [self._make_body(dict(s, shift_frac=shift_frac), i, dim, real_t, dx, lengths, forcing, velocity, reset) for i, s in enumerate(program["bodies"])]
        if shift_frac != 0.5:
            res.probe("non_default_grid_coordinate_shift")
        reset = None  # per body from here on
        if any(x["n"] >= 500 for x in bodies):
            res.probe("many_markers")
        if any(x["finalized"] for x in bodies):
            res.probe("simulator_finalised_after_interactor")
        nb = len(bodies)
        uniform = [0.0] * dim  # current flow is uniform with this value, or None
        state = {"linear": None}  # current flow is linear: (a, B), or None
        cell_vol = float(dx) ** dim
        nontrivial_step = False
        sig0 = {"dim": dim, "reset": [x["reset"] for x in bodies], "nb": nb}

        def public(b):
            it = b["inter"]
            return {
                "X": it.lag_grid_position_mismatch_field, "V": it.lag_grid_velocity_mismatch_field, "F": it.lag_grid_forcing_field, "t": np.array([it.time], dtype=np.float64),
            }

        def snap_body_state(b):
            return {k: v.copy() for k, v in b["state"].items()}

        for oi, op in enumerate(program["ops"]):
            kind = op["op"]
            bi = op.get("body", 0) % nb
            b = bodies[bi]
            before_pub = [{k: v.copy() for k, v in public(x).items()} for x in bodies]
            before_state = [snap_body_state(x) for x in bodies]
            vel_before = velocity.copy()
            forc_before = forcing.copy()
            acted = None
            if kind == "flowforces" and not hasattr(b.get("body_obj"), "external_forces"):
                kind = "forces"  # FlowForces needs a PyElastica body; otherwise the plain evaluation
            if kind in ("call", "forces", "lag", "flowforces"):
                acted = bi
                it, tw, m = b["inter"], b["twin"], b["model"]
                if kind == "flowforces":
                    # body forces evaluated the way PyElastica does it: through the FlowForces forcing class,
                    # at whatever time value the caller passes (here always the same one)
                    import sopht.simulator as sps_

                    if "flowforces" not in b:
                        b["flowforces"] = (sps_.FlowForces(it), sps_.FlowForces(tw))
                    b["flowforces"][0].apply_forces(b["body_obj"], time=0.0)
                    b["flowforces"][1].apply_forces(b["body_obj"], time=0.0)
                    res.probe("forces_through_flowforces")
                elif kind == "call":
                    it()
                    tw()
                elif kind == "forces":
                    it.compute_flow_forces_and_torques()
                    tw.compute_flow_forces_and_torques()
                else:
                    it.compute_interaction_on_lag_grid()
                    tw.compute_interaction_on_lag_grid()
                v_body = np.asarray(it.forcing_grid.velocity_field, dtype=np.float64)
                # (a0) the body velocity at the markers must be the *current* one: for rigid bodies
                # v = v_com + omega x (x_marker - x_com) from the body state at this very moment
                v_now = self._rigid_marker_velocity(b, it, dim)
                if v_now is not None:
                    tolk = 64 * 2.3e-16 * (1.0 + float(np.max(np.abs(v_now), initial=0.0)))
                    if not np.all(np.abs(v_body - v_now) <= tolk):
                        res.violation("pi_law", dict(sig0, what="body_velocity_not_current", grid=b["kind"], op=kind), f"op {oi} {kind} body {bi} ({b['kind']}): marker velocity used for the mismatch deviates from v_com + omega x r of the current body state by {float(np.max(np.abs(v_body - v_now))):.3e}", oi)
                    v_body = v_now
                    res.probe("rigid_body_kinematics_checked")
                U_obs = np.asarray(it.lag_grid_flow_velocity_field, dtype=np.float64)
                V_obs = np.asarray(it.lag_grid_velocity_mismatch_field, dtype=np.float64)
                vmax = float(np.max(np.abs(v_body), initial=0.0))
                umax = float(np.max(np.abs(U_obs), initial=0.0))
                # (a) X bitwise unchanged by an evaluation
                if it.lag_grid_position_mismatch_field.tobytes() != before_pub[bi]["X"].tobytes():
                    res.violation("pi_law", dict(sig0, what="integral_changed_by_evaluation", grid=b["kind"], op=kind), f"op {oi} {kind} on body {bi}: position-mismatch integral changed by an evaluation", oi)
                # (b) mismatch = interpolated flow - body velocity
                tolv = 8 * eps * (umax + vmax) + tiny
                if not np.all(np.abs(V_obs - (U_obs - v_body)) <= tolv):
                    res.violation("pi_law", dict(sig0, what="mismatch_not_flow_minus_body", grid=b["kind"], op=kind), f"op {oi} {kind} body {bi}: velocity mismatch != interpolated flow - body velocity (max dev {np.max(np.abs(V_obs - (U_obs - v_body))):.3e} > {tolv:.3e})", oi)
                if uniform is not None:
                    u0 = np.array(uniform, dtype=real_t).astype(np.float64).reshape(dim, 1)
                    tolu = 64 * eps * (float(np.max(np.abs(u0))) + tiny)
                    if float(np.max(np.abs(u0))) > 0:
                        res.sim["max_uniform_err_units_x1000"] = max(res.sim.get("max_uniform_err_units_x1000", 0), int(1000 * float(np.max(np.abs(U_obs - u0))) / (eps * float(np.max(np.abs(u0))))))
                    if not np.all(np.abs(U_obs - u0) <= tolu):
                        res.violation("pi_law", dict(sig0, what="uniform_flow_not_reproduced", grid=b["kind"], op=kind), f"op {oi} {kind} body {bi}: interpolating the uniform flow {uniform} gave deviation {np.max(np.abs(U_obs - u0)):.3e} > {tolu:.3e}", oi)
                    res.probe("uniform_flow_eval")
                elif state["linear"] is not None:
                    # "interpolated flow velocity" at the marker: for a linear field any regularised delta
                    # kernel of this width returns the field value at the marker up to its first-moment
                    # defect (0 for Peskin's, 1.6 % of dx for the cosine kernel); 10 % of dx allowed
                    a, B = state["linear"]
                    X = np.asarray(it.forcing_grid.position_field, dtype=np.float64)
                    want = a.reshape(dim, 1) + B @ X
                    toll = 0.1 * float(dx) * np.sum(np.abs(B), axis=1).reshape(dim, 1) + 64 * eps * (np.abs(want) + 1.0)
                    if not np.all(np.abs(U_obs - want) <= toll):
                        res.violation("pi_law", dict(sig0, what="interpolated_velocity_not_at_marker", grid=b["kind"], op=kind), f"op {oi} {kind} body {bi} (N={b['n']}): interpolating a linear flow gives {float(np.max(np.abs(U_obs - want))):.3e} deviation from the field value at the marker (allowed {float(np.max(toll)):.3e} = 10 % of dx times gradient)", oi)
                    res.probe("linear_flow_eval")
                else:
                    res.probe("generic_flow_eval")
                if program.get("fresh_probe") and (oi * 7 + bi) % 5 == 0:
                    # the interpolated velocity depends on the current flow and marker positions only: a
                    # freshly constructed interaction evaluated once must give the same bits
                    fresh_inter = b["rebuild"](False, np.zeros_like(forcing))  # new interaction object on the same body
                    fresh_inter.compute_interaction_on_lag_grid()
                    Uf = fresh_inter.lag_grid_flow_velocity_field
                    res.probe("fresh_object_interpolation_probe")
                    if Uf.tobytes() != it.lag_grid_flow_velocity_field.tobytes():
                        res.violation("pi_law", dict(sig0, what="interpolation_depends_on_history", grid=b["kind"], op=kind), f"op {oi} {kind} body {bi}: the interpolated flow velocity differs bitwise from what a freshly constructed interaction gives for the same flow and body state (max dev {float(np.max(np.abs(Uf.astype(np.float64) - U_obs))):.3e})", oi)
                m.evaluate(U_obs, v_body)
                # (c) force = k' X + c' V
                scale = abs(m.k) * max(m.x_scale, float(np.max(np.abs(m.X), initial=0.0))) + abs(m.c) * float(np.max(np.abs(m.V), initial=0.0))
                tolf = (16 * eps * (m.steps + 1) + b["h_rel"] * (dim - 1)) * scale + tiny
                F_obs = np.asarray(it.lag_grid_forcing_field, dtype=np.float64)
                errf = float(np.max(np.abs(F_obs - m.F), initial=0.0))
                if not errf <= tolf:
                    res.violation("pi_law", dict(sig0, what="force_not_kX_plus_cV", grid=b["kind"], op=kind), f"op {oi} {kind} body {bi} ({b['kind']}, N={b['n']}): marker force deviates from k'X+c'V by {errf:.3e} > {tolf:.3e} (k'={m.k:.4g}, c'={m.c:.4g}, steps={m.steps})", oi)
                if scale > 0:
                    key = "max_force_err_units_rods_x1000" if b["kind"].startswith("rod") else "max_force_err_units_x1000"
                    res.sim[key] = max(res.sim.get(key, 0), int(1000 * errf / (eps * (m.steps + 1) * scale + tiny)))
                if b["evals_since_step"] >= 1:
                    res.probe("repeated_eval_without_step")
                b["evals_since_step"] += 1
                b["ever_eval"] = True
                # (d) Eulerian forcing field
                if kind == "call":
                    reset = b["reset"]
                    tf = b["twin_field"]
                    wmax = float(np.max(np.abs(np.asarray(tw.interp_weights, dtype=np.float64)), initial=0.0))
                    fmax = float(np.max(np.abs(F_obs), initial=0.0))
                    bound = b["n"] * fmax * wmax
                    want = tf.astype(np.float64) if reset else forc_before.astype(np.float64) + tf.astype(np.float64)
                    tolc = 32 * eps * (np.abs(forc_before.astype(np.float64)) + bound) + tiny
                    dev = np.abs(forcing.astype(np.float64) - want)
                    if not np.all(dev <= tolc):
                        what = "reset_mode_not_overwrite" if reset else "accumulate_mode_not_additive"
                        res.violation("forcing_field", dict(sig0, what=what, grid=b["kind"]), f"op {oi} call body {bi}: Eulerian forcing field deviates from {'spread alone' if reset else 'previous content + spread'} by {float(np.max(dev)):.3e}", oi)
                    # partition of unity: grid integral of the spread equals total marker force
                    tot_grid = tf.astype(np.float64).reshape(dim, -1).sum(axis=1) * cell_vol
                    tot_lag = F_obs.sum(axis=1)
                    toli = 256 * eps * b["n"] * fmax * (4**dim) + tiny
                    if not np.all(np.abs(tot_grid - tot_lag) <= toli):
                        res.violation("forcing_field", dict(sig0, what="spread_integral_not_total_force", grid=b["kind"]), f"op {oi} call body {bi}: grid integral of spread {tot_grid} != sum of marker forces {tot_lag}", oi)
                    if np.any(forc_before != 0):
                        res.probe("reset_eval_into_dirty_field" if reset else "two_bodies_spread_into_nonzero_field" if nb > 1 else "spread_into_nonzero_field")
                        if not reset and np.any((forc_before != 0) & (tf != 0)):
                            res.probe("overlapping_supports")
            elif kind == "step":
                acted = bi
                it, tw, m = b["inter"], b["twin"], b["model"]
                dt = float(op["dt"])
                vnz = bool(np.any(it.lag_grid_velocity_mismatch_field != 0))
                it.time_step(dt)
                tw.time_step(dt)
                m.time_step(dt)
                res.probe("step_with_nonzero_mismatch" if vnz else "step_with_zero_mismatch")
                if not b["ever_eval"]:
                    res.probe("step_before_any_eval")
                if vnz:
                    nontrivial_step = True
                b["evals_since_step"] = 0
                b["dts"].append(dt)
                if max(b["dts"]) / min(b["dts"]) >= 100:
                    res.probe("dt_ratio_ge_100")
                X_obs = np.asarray(it.lag_grid_position_mismatch_field, dtype=np.float64)
                tolx = 4 * eps * m.steps * m.x_scale + tiny
                errx = float(np.max(np.abs(X_obs - m.X), initial=0.0))
                if not errx <= tolx:
                    res.violation("pi_law", dict(sig0, what="integral_not_euler_forward", grid=b["kind"]), f"op {oi} time_step(dt={dt:.4g}) body {bi}: integral deviates from X + dt*V by {errx:.3e} > {tolx:.3e} after {m.steps} steps", oi)
                if m.x_scale > 0:
                    res.sim["max_integral_err_units_x1000"] = max(res.sim.get("max_integral_err_units_x1000", 0), int(1000 * errx / (eps * m.steps * m.x_scale + tiny)))
                tolt = 8 * 2.3e-16 * m.steps * max(abs(m.t), sum(b["dts"]), 1e-300)
                if not abs(float(it.time) - m.t) <= tolt:
                    res.violation("pi_law", dict(sig0, what="forcing_clock", grid=b["kind"]), f"op {oi} time_step body {bi}: forcing clock {it.time!r} != start + sum(dt) = {m.t!r}", oi)
                # a time step leaves V and F alone
                if it.lag_grid_velocity_mismatch_field.tobytes() != before_pub[bi]["V"].tobytes():
                    res.violation("pi_law", dict(sig0, what="time_step_changed_mismatch", grid=b["kind"]), f"op {oi} time_step body {bi} changed the velocity mismatch field", oi)
            elif kind == "deviation":
                # public diagnostic: returns the L2 norm of the integral per marker and must not touch anything
                val = float(b["inter"].get_grid_deviation_error_l2_norm())
                b["twin"].get_grid_deviation_error_l2_norm()
                want = float(np.linalg.norm(b["model"].X) / np.sqrt(b["n"]))
                res.probe("deviation_query")
                tolq = 64 * eps * (b["model"].steps + 1) * max(b["model"].x_scale, tiny) * np.sqrt(b["model"].X.size) + tiny
                if not abs(val - want) <= tolq:
                    res.violation("pi_law", dict(sig0, what="deviation_norm", grid=b["kind"]), f"op {oi} deviation query on body {bi}: returned {val!r}, integral of the model gives {want!r}", oi)
            elif kind == "creep":
                # a slowly creeping body: displacement far below the grid spacing
                gg = prng.np_rng(op["sub"], "creep")
                st = b["state"]
                key = "pos" if "pos" in st else "p"
                st[key][...] = st[key] + float(op["size"]) * float(dx) * gg.standard_normal(st[key].shape)
                res.probe("creeping_body")
                before_state = [snap_body_state(x) for x in bodies]
            elif kind == "move":
                b["move"](op["sub"])
                before_state = [snap_body_state(x) for x in bodies]
            elif kind == "flow":
                linear = None
                if "linear" in op:
                    # u_c(x) = a_c + sum_ax B[c][ax] * x_ax on cell centres x = (i + 1/2) dx
                    a = np.array((list(op["linear"]["a"]) + [0.0] * dim)[:dim], dtype=np.float64)
                    B = np.array(op["linear"]["B"], dtype=np.float64)[:dim, :dim]
                    centres = [(np.arange(shape[dim - 1 - ax]) + shift_frac) * float(dx) for ax in range(dim)]  # x, y(, z)
                    grids = np.meshgrid(*centres[::-1], indexing="ij")[::-1]  # arrays of x, y(, z) over (z, y, x)
                    for c in range(dim):
                        velocity[c] = (a[c] + sum(B[c, ax] * grids[ax] for ax in range(dim))).astype(real_t)
                    uniform = None
                    linear = (a, B)
                    vel_before = velocity.copy()
                elif "uniform" in op:
                    uniform = [float(x) for x in (list(op["uniform"]) + [0.0] * dim)[:dim]]
                    for ax in range(dim):
                        velocity[ax] = real_t(uniform[ax])
                else:
                    uniform = None
                    velocity[...] = prng.smooth_field(op["sub"], velocity.shape, real_t, 1.0)
                state["linear"] = linear
                vel_before = velocity.copy()
            elif kind == "consume":
                forcing[...] = 0
                forc_before = forcing.copy()
            # ---- invariants after every op
            if velocity.tobytes() != vel_before.tobytes():
                res.violation("read_only", dict(sig0, what="flow_velocity_modified", op=kind), f"op {oi} {kind}: the flow velocity field was modified by the interaction", oi)
            for xi, x in enumerate(bodies):
                for k, v in x["state"].items():
                    if v.tobytes() != before_state[xi][k].tobytes():
                        res.violation("read_only", dict(sig0, what="body_state_modified", op=kind, grid=x["kind"]), f"op {oi} {kind} on body {bi}: body {xi} state array '{k}' was modified", oi)
                if xi != acted or kind == "deviation":
                    pub = public(x)
                    for k in pub:
                        if pub[k].tobytes() != before_pub[xi][k].tobytes():
                            res.violation("pi_law", dict(sig0, what="cross_talk", op=kind), f"op {oi} {kind} on body {bi} changed '{k}' of body {xi}" + (" (a read-only query)" if xi == acted else ""), oi)
            if kind not in ("call", "consume") and forcing.tobytes() != forc_before.tobytes():
                res.violation("forcing_field", dict(sig0, what="forcing_field_touched_by_non_spreading_op", op=kind), f"op {oi} {kind}: Eulerian forcing field changed by an op that does not spread", oi)
            if not b["inter"].eul_grid_velocity_field.flags.writeable:
                res.probe("velocity_view_read_only")
            res.log.event("op", i=oi, op=kind, body=bi)
            for x in bodies:
                pub = public(x)
                for k in sorted(pub):
                    res.log.array(k, pub[k])
            res.log.array("forcing", forcing)
            res.log.state(dim, program["precision"], b["reset"], nb, kind, b["kind"], b["evals_since_step"], uniform is None, bool(np.any(forcing != 0)))
            res.add_sim("ops", 1)
        res.add_sim("forcing_clock_time", sum(sum(x["dts"]) for x in bodies))
        res.nontrivial = res.nontrivial or nontrivial_step

    # ------------------------------------------------------------------ shrinking
    def repair(self, program):
        nb = len(program["bodies"])
        for o in program["ops"]:
            if "body" in o:
                o["body"] = o["body"] % nb
        return program

    def simplify(self, program):
        nb = len(program["bodies"])
        for key in ("prelude", "padded", "shift_frac", "fresh_probe"):
            if program.get(key):
                c = copy.deepcopy(program)
                c.pop(key)
                yield c
        if nb > 1:
            for drop in range(nb):
                c = copy.deepcopy(program)
                del c["bodies"][drop]
                c["ops"] = [o for o in c["ops"] if o.get("body", -1) != drop]
                for o in c["ops"]:
                    if "body" in o and o["body"] > drop:
                        o["body"] -= 1
                yield c
        for bi, b in enumerate(program["bodies"]):
            if b["kind"] != "prog":
                c = copy.deepcopy(program)
                c["bodies"][bi]["kind"] = "prog"
                c["bodies"][bi]["n"] = PROG_N[program["dim"]][1]
                yield c
            elif b["n"] != PROG_N[program["dim"]][0]:
                c = copy.deepcopy(program)
                c["bodies"][bi]["n"] = PROG_N[program["dim"]][0]
                yield c
            if b["t0"] != 0.0:
                c = copy.deepcopy(program)
                c["bodies"][bi]["t0"] = 0.0
                yield c
        for oi, o in enumerate(program["ops"]):
            if o["op"] == "step" and o["dt"] != 0.5:
                c = copy.deepcopy(program)
                c["ops"][oi]["dt"] = 0.5
                yield c
            if o["op"] == "flow" and ("sub" in o or "linear" in o):
                c = copy.deepcopy(program)
                c["ops"][oi] = {"op": "flow", "uniform": [1.0] * program["dim"]}
                yield c
        if program["precision"] == "single":
            c = copy.deepcopy(program)
            c["precision"] = "double"
            yield c


_PROG_CLS = {}


def _prog_grid_cls(base):
    """Harness-defined forcing grid through the public extension point."""
    if base in _PROG_CLS:
        return _PROG_CLS[base]

    class ProgGrid(base):
        def __init__(self, grid_dim, num_lag_nodes, state):
            super().__init__(grid_dim, num_lag_nodes)
            self.state = state

        def compute_lag_grid_position_field(self):
            self.position_field[...] = self.state["pos"]

        def compute_lag_grid_velocity_field(self):
            self.velocity_field[...] = self.state["vel"]

        def transfer_forcing_from_grid_to_body(self, body_flow_forces, body_flow_torques, lag_grid_forcing_field):
            body_flow_forces[: self.grid_dim] = -np.sum(lag_grid_forcing_field, axis=1).reshape(-1, 1)

        def get_maximum_lagrangian_grid_spacing(self):
            return self.state["hmax"]

    _PROG_CLS[base] = ProgGrid
    return ProgGrid


CHECK = C10()
