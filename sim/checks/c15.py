"""C15 - results do not depend on thread count or iteration order.

Every pystencils kernel SophT builds is replaced (at `Kernel.compile`) by a
simulated kernel that executes the kernel's backend IR on the real argument
memory under a simulated OpenMP runtime (sim/irsim.py).  For every launch:
  oracle 1  bit-identity of the scheduled execution with the sequential one;
  oracle 2  race detector on the sequential execution's per-cell access sets:
            no cell reads an address another cell of the same launch writes;
  oracle 3  Lagrangian->Eulerian spreading under a permuted `prange`
            (numba un-jitted) equals the in-order result bit for bit.
Targets: every kernel generator and option combination (bare kernels and their
Python wrappers), full time steps of the 2D/3D Navier-Stokes and passive
transport simulators in every configuration, the unbounded solvers, the
virtual-boundary interaction, stable-timestep and divergence queries.
"""

from __future__ import annotations

import copy
import inspect
import itertools
import random
import sys

import numpy as np

from .. import irsim, prng
from ..driver import Check, HarnessError

SHAPES = {2: [(7, 9), (6, 5)], 3: [(5, 6, 7), (4, 5, 4)]}
SIM_SHAPES = {2: [(10, 12), (12, 10)], 3: [(6, 7, 8), (7, 6, 8)]}


def _real_t(precision):
    return np.float32 if precision == "single" else np.float64


def _call_site():
    """file:line of the innermost sopht frame that launched the kernel."""
    f = sys._getframe(2)
    while f is not None:
        fn = f.f_code.co_filename
        if "/sopht/" in fn:
            return f"{fn.split('/sopht/')[-1]}:{f.f_code.co_name}"
        f = f.f_back
    return "harness"


class Runtime:
    """Simulated OpenMP runtime + per-launch oracles."""

    def __init__(self, res, sched_seed: int, explore: bool = True) -> None:
        self.res = res
        self.rng = random.Random(sched_seed)
        self.explore = explore
        self.launches = 0
        self.cells = 0
        self.target = "?"

    def launch(self, simk, kwargs):
        res = self.res
        ptr_info, vals = simk.bind(kwargs)
        bounds_fn, run = simk.instantiate(ptr_info, vals)
        bounds = bounds_fn()
        cells = irsim.program_order(bounds)
        self.launches += 1
        self.cells += len(cells)
        if not self.explore or not cells:
            run(cells)
            return
        site = _call_site()
        flats = {name: info[0] for name, info in ptr_info.items()}
        snaps = {name: f.copy() for name, f in flats.items()}
        # ---- sequential, traced
        _, run_t = simk.instantiate(ptr_info, vals, traced=True)
        R, W = [], []
        with np.errstate(all="ignore"):
            run_t(cells, R, W)
        r0 = {name: f.copy() for name, f in flats.items()}
        conflicts, ww, intra = irsim.analyse_races(R, W, cells)
        sig = {"site": site, "kernel_fields": sorted(simk.fields), "target": self.target}
        if conflicts:
            ci, cj, addr = conflicts[0]
            # which parameters alias at that address?
            names = [p for p, (f, b, a0, arr) in ptr_info.items() if a0 <= addr < a0 + f.size]
            res.violation(
                "race",
                sig,
                f"launch of kernel({', '.join(sorted(simk.fields))}) at {site}: cell {cj} reads element address {addr} that cell {ci} writes (arguments covering that address: {names}); {len(conflicts)}+ such pairs",
            )
        if intra:
            cell, addr, pw, pr = intra[0]
            ids = {v: k for k, v in simk.cg.ptr_ids.items()}
            res.violation(
                "aliasing",
                sig,
                f"launch of kernel({', '.join(sorted(simk.fields))}) at {site}: in cell {cell} parameter {ids.get(pr)} reads element address {addr} after the same cell wrote it through parameter {ids.get(pw)}: output memory is also bound to a differently indexed input",
            )
        if ww:
            res.probe("write_write_overlap_between_cells", ww)
        # aliasing reach probes
        written = [ptr_info[p] for p in simk.ptr_written]
        for p in simk.ptr_read:
            f, b, a0, arr = ptr_info[p]
            for (fw, bw, aw, arrw) in written:
                if p not in simk.ptr_written and np.shares_memory(arr, arrw):
                    res.probe("output_memory_shared_with_read_only_parameter")
        if any(p in simk.ptr_read for p in simk.ptr_written):
            res.probe("in_place_kernel_launch")
        if any(not info[3].flags.c_contiguous for info in ptr_info.values()):
            res.probe("launch_on_strided_view")
        # ---- scheduled execution from the same initial memory
        for name, f in flats.items():
            f[...] = snaps[name]
        sched = irsim.draw_schedule(self.rng, len(range(*bounds[0])), simk.omp_threads)
        order = irsim.scheduled_order(cells, bounds, sched)
        if len(order) != len(cells):
            raise HarnessError("scheduler lost or duplicated cells")
        with np.errstate(all="ignore"):
            run(order)
        if sched["threads"] > len(range(*bounds[0])):
            res.probe("more_threads_than_outer_iterations")
        res.probe("policy_" + sched["policy"])
        bad = [name for name, f in flats.items() if f.tobytes() != r0[name].tobytes()]
        if bad:
            res.violation(
                "schedule_dependence",
                dict(sig, policy=sched["policy"]),
                f"launch of kernel({', '.join(sorted(simk.fields))}) at {site}: result of schedule {sched} differs bitwise from the sequential order in parameter(s) {bad}",
            )
            for name, f in flats.items():
                f[...] = r0[name]
        res.log.event("launch", site=site, fields=sorted(simk.fields), n=len(cells), sched=sched, ok=not bad and not conflicts and not intra)
        for name in sorted(r0):
            res.log.array(name, r0[name])
        res.log.state(site, sorted(simk.fields), sched["policy"], min(sched["threads"], 17), bool(conflicts), bool(bad))


# ---------------------------------------------------------------------- call-site aliasing probe

_alias = {"enabled": False, "res": None, "depth": 0}


def _arrays_of(args, kwargs):
    out = []
    for i, a in enumerate(args):
        if isinstance(a, np.ndarray):
            out.append((("pos", i), a))
    for k in sorted(kwargs):
        if isinstance(kwargs[k], np.ndarray):
            out.append((("kw", k), kwargs[k]))
    return out


class AliasProbe:
    """Wraps whatever a gen_* function hands out (bare kernel or Python wrapper).

    Oracle (aliasing transparency): when array arguments of one call - including the arrays
    bound at generation time (filter / grid buffers) - overlap in memory, the call must give
    bit-identical results to the same call on private, non-overlapping copies.  That holds iff
    output memory is only shared with inputs that are read at the same element before being
    written, i.e. never with a neighbour-read or differently indexed input.
    """

    def __init__(self, gen_fn, gen_args, gen_kwargs, wrapper, name) -> None:
        self.gen_fn, self.gen_args, self.gen_kwargs, self.wrapper, self.name = gen_fn, gen_args, gen_kwargs, wrapper, name
        self._ref = None
        self.__name__ = getattr(wrapper, "__name__", name)

    @property
    def inner(self):
        return self.wrapper

    def _reference(self):
        if self._ref is None:
            args = [a.copy() if isinstance(a, np.ndarray) else a for a in self.gen_args]
            kwargs = {k: (v.copy() if isinstance(v, np.ndarray) else v) for k, v in self.gen_kwargs.items()}
            self._ref = (self.gen_fn(*args, **kwargs), args, kwargs)
        return self._ref

    def __call__(self, *args, **kwargs):
        if not _alias["enabled"]:
            return self.wrapper(*args, **kwargs)
        res = _alias["res"]
        call_arrays = _arrays_of(args, kwargs)
        gen_arrays = _arrays_of(self.gen_args, self.gen_kwargs)
        every = [("call", k, a) for k, a in call_arrays] + [("gen", k, a) for k, a in gen_arrays]
        overlap = False
        for i in range(len(every)):
            for j in range(i + 1, len(every)):
                if every[i][0] == "gen" and every[j][0] == "gen" and not call_arrays:
                    continue
                if np.may_share_memory(every[i][2], every[j][2]) and np.shares_memory(every[i][2], every[j][2]):
                    overlap = True
                    break
            if overlap:
                break
        if not overlap:
            return self.wrapper(*args, **kwargs)
        res.probe("call_with_overlapping_array_arguments")
        # ---- reference execution on private copies (no exploration, no nested probes)
        site = _call_site_of_probe()
        before = {k: a.copy() for k, a in call_arrays}
        saved_rt = irsim.SimKernel.runtime
        _alias["enabled"] = False
        irsim.SimKernel.runtime = None
        try:
            if gen_arrays:
                ref_wrapper, ref_args, ref_kwargs = self._reference()
                ref_gen = _arrays_of(ref_args, ref_kwargs)
                for (k, a), (k2, b) in zip(gen_arrays, ref_gen, strict=True):
                    b[...] = a
                if isinstance(ref_wrapper, AliasProbe):
                    ref_wrapper = ref_wrapper.wrapper
            else:
                ref_wrapper = self.wrapper
            c_args = [a.copy() if isinstance(a, np.ndarray) else a for a in args]
            c_kwargs = {k: (v.copy() if isinstance(v, np.ndarray) else v) for k, v in kwargs.items()}
            with np.errstate(all="ignore"):
                ref_wrapper(*c_args, **c_kwargs)
            ref_after = dict(_arrays_of(c_args, c_kwargs))
        finally:
            _alias["enabled"] = True
            irsim.SimKernel.runtime = saved_rt
        # ---- the real call (aliased), explored as usual
        out = self.wrapper(*args, **kwargs)
        for k, a in call_arrays:
            if ref_after[k].tobytes() == before[k].tobytes():
                continue  # not an output of this call
            if a.tobytes() != ref_after[k].tobytes():
                res.violation(
                    "aliasing",
                    {"site": site, "wrapper": self.name, "param": str(k[1])},
                    f"call of {self.name} at {site}: array arguments overlap in memory and output '{k[1]}' differs bitwise from the same call on private copies (max dev {float(np.nanmax(np.abs(a.astype(np.float64) - ref_after[k].astype(np.float64)))):.3e}): output memory is also bound to a neighbour-read or differently indexed input",
                )
                break
        return out


def _call_site_of_probe():
    f = sys._getframe(2)
    while f is not None:
        fn = f.f_code.co_filename
        if "/sopht/" in fn:
            return f"{fn.split('/sopht/')[-1]}:{f.f_code.co_name}"
        f = f.f_back
    return "harness"


_wrapped_gens: dict = {}


def install_alias_probes() -> int:
    """Replace every gen_* function reachable from a loaded sopht module by a probing version."""
    n = 0
    for mname, mod in list(sys.modules.items()):
        if not (mname == "sopht" or mname.startswith("sopht.")) or mod is None:
            continue
        for attr in list(vars(mod)):
            if not attr.startswith("gen_"):
                continue
            fn = getattr(mod, attr)
            if not callable(fn) or getattr(fn, "_verif_probe", False):
                continue
            w = _wrapped_gens.get(id(fn))
            if w is None:

                def make(fn=fn, attr=attr):
                    def gen_with_probe(*a, **k):
                        return AliasProbe(gen_with_probe, a, k, fn(*a, **k), attr)

                    gen_with_probe._verif_probe = True
                    gen_with_probe.__name__ = attr
                    gen_with_probe.__wrapped__ = fn
                    gen_with_probe.__signature__ = inspect.signature(fn)
                    return gen_with_probe

                w = make()
                _wrapped_gens[id(fn)] = w
            setattr(mod, attr, w)
            n += 1
    return n


# ---------------------------------------------------------------------- generator inventory


def generator_combos():
    """(generator name, dim, options) for every gen_* function and option combination."""
    from ..seams import install

    install()
    import sopht.numeric.eulerian_grid_ops as spne

    out = []
    for name in sorted(dir(spne)):
        if not name.startswith("gen_"):
            continue
        fn = getattr(spne, name)
        params = inspect.signature(fn).parameters
        dim = 3 if name.endswith("3d") else 2
        opts = {}
        opts["precision"] = ["single", "double"]
        opts["num_threads"] = [False, 4]
        if "fixed_grid_size" in params:
            opts["fixed"] = [False, True]
        if "field_type" in params:
            opts["field_type"] = ["scalar", "vector"]
        if "reset_ghost_zone" in params:
            opts["reset_ghost_zone"] = [True, False]
        if "filter_type" in params:
            opts["filter_type"] = ["multiplicative", "convolution"]
            opts["filter_order"] = [1, 2]
        if "width" in params:
            opts["width"] = [2, 3]
        keys = sorted(opts)
        for combo in itertools.product(*[opts[k] for k in keys]):
            out.append((name, dim, dict(zip(keys, combo, strict=False))))
    return out


_COMBOS = None


def combos():
    global _COMBOS
    if _COMBOS is None:
        _COMBOS = generator_combos()
    return _COMBOS


def build_generator(name, dim, o, shape):
    """Call gen_* with the option combination; returns the wrapper it hands out."""
    import sopht.numeric.eulerian_grid_ops as spne

    fn = getattr(spne, name)
    params = inspect.signature(fn).parameters
    real_t = _real_t(o["precision"])
    kw = {"real_t": real_t, "num_threads": o["num_threads"]}
    if "fixed_grid_size" in params:
        kw["fixed_grid_size"] = tuple(shape) if o.get("fixed") else False
    for k in ("field_type", "reset_ghost_zone", "filter_type", "filter_order", "width"):
        if k in params and k in o:
            kw[k] = o[k]
    if "blend_width" in params:
        kw["blend_width"] = 0.2
    if "dx" in params:
        kw["dx"] = real_t(0.1)
    axes = [np.arange(n, dtype=real_t) * real_t(0.1) + real_t(0.05) for n in shape]
    grids = np.meshgrid(*axes, indexing="ij")  # z, y, x order
    names = ["x_grid_field", "y_grid_field", "z_grid_field"]
    for i, gname in enumerate(names[:dim]):
        if gname in params:
            kw[gname] = np.ascontiguousarray(grids[dim - 1 - i])
    if "filter_flux_buffer" in params:
        kw["filter_flux_buffer"] = np.zeros(shape, dtype=real_t)
        kw["field_buffer"] = np.zeros(shape, dtype=real_t)
    if "midstep_buffer_vector_field" in params:
        kw["midstep_buffer_vector_field"] = np.zeros((dim, *shape), dtype=real_t)
    return fn(**kw)


class ArgSynth:
    """Generic data for wrapper parameters, chosen by trying shapes until the wrapper accepts them."""

    def __init__(self, dim, shape, real_t, sub, view) -> None:
        self.dim, self.shape, self.real_t, self.sub, self.view = dim, tuple(shape), real_t, sub, view
        self.n = 0

    def array(self, vector: bool, name: str):
        shp = (self.dim, *self.shape) if vector else self.shape
        self.n += 1
        data = prng.smooth_field(self.sub, shp, self.real_t, 1.0, name, self.n)
        if self.view == "padded":
            big = np.full(tuple(n + 2 for n in shp), 7.0, dtype=self.real_t)
            v = big[tuple(slice(1, 1 + n) for n in shp)]
            v[...] = data
            return v
        return data

    def scalar(self, name: str):
        g = prng.np_rng(self.sub, "scalar", name)
        return float(g.uniform(0.1, 0.9))


def synth_call(wrapper, dim, shape, real_t, sub, view, dry_runtime):
    """Find an argument assignment the wrapper accepts; returns a thunk that calls it on fresh data."""
    probe = wrapper
    if isinstance(wrapper, AliasProbe):
        wrapper = wrapper.wrapper
        if isinstance(wrapper, irsim.SimKernel):
            probe = wrapper
    if isinstance(wrapper, irsim.SimKernel):
        fields = {}
        for fname, p in wrapper.fields.items():
            fld = p.fields[0]
            rank = fld.spatial_dimensions + fld.index_dimensions
            fields[fname] = rank
        scalars = [p.name for p in wrapper.kernel.parameters if not p.is_field_parameter]

        def make():
            syn = ArgSynth(dim, shape, real_t, sub, view)
            kw = {}
            for fname, rank in sorted(fields.items()):
                if rank == len(shape):
                    kw[fname] = syn.array(False, fname)
                elif rank == len(shape) + 1:
                    kw[fname] = syn.array(True, fname)
                else:
                    raise HarnessError(f"field {fname} of rank {rank}")
            for s in scalars:
                kw[s] = syn.scalar(s)
            return kw

        return lambda: wrapper(**make())
    sig = inspect.signature(wrapper)
    wrapper = probe
    names = list(sig.parameters)
    arr_names, tup_names, sc_names = [], [], []
    for n in names:
        ann = str(sig.parameters[n].annotation)
        if "ndarray" in ann:
            arr_names.append(n)
        elif "tuple" in ann or n in ("fixed_vals", "penalty_val"):
            tup_names.append(n)
        else:
            sc_names.append(n)

    def make(assign):
        syn = ArgSynth(dim, shape, real_t, sub, view)
        kw = {}
        for n, vec in zip(arr_names, assign, strict=False):
            kw[n] = syn.array(vec, n)
        for n in tup_names:
            kw[n] = tuple(syn.scalar(n + str(i)) for i in range(dim))
        for n in sc_names:
            kw[n] = syn.scalar(n)
        return kw

    saved = irsim.SimKernel.runtime
    irsim.SimKernel.runtime = dry_runtime
    try:
        for assign in itertools.product([False, True], repeat=len(arr_names)):
            try:
                with np.errstate(all="ignore"):
                    wrapper(**make(assign))
                return lambda assign=assign: wrapper(**make(assign))
            except HarnessError:
                raise
            except Exception:  # noqa: BLE001  wrong guess of scalar/vector shapes
                continue
    finally:
        irsim.SimKernel.runtime = saved
    raise HarnessError(f"could not synthesise arguments for wrapper {getattr(wrapper, '__name__', wrapper)} {names}")


# ---------------------------------------------------------------------- the check


class C15(Check):
    prop_id = "C15"
    level = "exploration"
    technique = "deterministic simulation: every generated kernel executed from its pystencils backend IR under a simulated OpenMP runtime (seeded thread counts, chunking, per-cell interleavings) on the real arrays bound at the real call sites; per-launch bit-identity with the sequential order + race detector; permuted-prange spreading"
    rule = (
        "a case is one program: a target (a kernel generator + option combination, or a simulator / solver / interaction configuration with its op list) and a schedule seed; "
        "each kernel launch inside it is executed sequentially (traced) and under one drawn schedule; non-trivial = at least one launch with >= 2 cells executed under a non-sequential schedule; "
        "distinct = distinct canonical JSON of the program"
    )
    assumptions = [
        "the C compiler and libgomp are replaced by the IR executor + simulated runtime; races existing only in emitted C are out of reach (fidelity of the executor against compiled kernels is self-tested to a few ulp)",
        "granularity is one cell update (all reads, then the writes): sufficient to expose any read-write or write-write conflict between two cells on generic data",
        "FFT execution is an opaque sequential function (FFTW-internal threading is not compared across thread counts)",
        "numba kernels run un-jitted with numba.prange replaced by a seeded permuted range",
        "pystencils 2.0 cannot build 4-D kernels: vector elementwise sum/saxpby 3D and both vorticity-stretching time-step generators are unreachable here",
    ]
    components = {
        "real": [
            "pystencils front/middle end producing the backend IR of every kernel (real get_pyst_kernel_config / gen_* code)",
            "all sopht wiring: simulators' time steps, solvers, wrappers, VirtualBoundaryForcing, the arrays they bind",
            "FFTW execution, numpy/BLAS glue",
        ],
        "stub": ["C compiler + libgomp -> IR executor + simulated OpenMP runtime", "numba JIT disabled; numba.prange -> seeded permuted range"],
    }
    required_probes = [
        "in_place_kernel_launch", "launch_on_strided_view", "call_with_overlapping_array_arguments", "more_threads_than_outer_iterations", "policy_permuted", "policy_static", "policy_dynamic",
        "executor_fidelity_checked_against_compiled_kernel", "thread_differential_ir", "thread_differential_compiled", "repeated_identical_requests", "marker_by_marker_reference", "scalar_communicator_marker_reference", "production_sized_grid_compiled_alias_probe", "blocking_probe_on_production_sized_array", "target_gen", "target_ns2d", "target_ns3d", "target_passive", "target_solver", "target_interaction", "spreading_permuted_prange",
    ]
    tiers = {
        "quick": {"runs": 800, "batch": 6, "timeout": 900},
        "thorough": {"runs": 12000, "batch": 6, "timeout": 1500},
    }
    selftest_runs = {"quick": 24, "thorough": 90}

    def warmup(self, tier):
        from ..seams import install

        install()
        import sopht.simulator  # noqa: F401
        import sopht.simulator.flow.passive_transport_flow_simulators  # noqa: F401

        install_alias_probes()
        combos()

    # ------------------------------------------------------------------ program
    def draw(self, rng, tier, run):
        n_gen = len(combos())
        # the first n_gen run indices of a sweep enumerate the generator inventory once
        if run < n_gen:
            target = "gen"
            gi = run
        elif (run - n_gen) % 97 == 5:
            # production-sized grid with the genuinely compiled kernels: only the call-site alias probes run
            p = {"target": "large", "sched_seed": 0, "sub": prng.sub_seed(rng), "precision": rng.choice(["single", "double"]), "num_threads": rng.choice([1, 4]),
                 "dim": 2, "shape": list(rng.choice([(1024, 1024), (1040, 1010)])), "with_forcing": rng.random() < 0.5, "free_stream": rng.random() < 0.5, "zone": rng.choice([0, 2, 3]),
                 "steps": 1, "queries": True, "body": False}
            if rng.random() < 0.4:
                p.update({"dim": 3, "shape": list(rng.choice([(64, 64, 128), (128, 72, 96)])), "filter": rng.choice([None, {"type": "multiplicative", "order": 1}]), "poisson": "greens"})
            return p
        else:
            target = prng.weighted_choice(rng, [("gen", 3), ("ns2d", 3), ("ns3d", 3), ("passive", 1), ("solver", 1), ("interaction", 3)])
            gi = rng.randrange(n_gen)
        p = {"target": target, "sched_seed": rng.getrandbits(32), "sub": prng.sub_seed(rng), "precision": rng.choice(["single", "double"]), "num_threads": rng.choice([1, 2, 4])}
        if target == "gen":
            name, dim, o = combos()[gi]
            p.update({"gen": name, "dim": dim, "opts": o, "shape": list(rng.choice(SHAPES[dim])), "view": rng.choice(["contig", "contig", "padded"]), "repeats": 3})
            p["fidelity"] = (gi % 8 == run % 8) if run < n_gen else rng.random() < 0.15
            # serial builds of the kernels: blocking inside a wrapper does not need threads, and real OpenMP teams on
            # 2.7M-cell arrays in 16 concurrent worker processes proved fragile under load
            p["blocking_probe"] = (not o["num_threads"]) and o["precision"] == "double" and not o.get("fixed") and o.get("filter_order", 1) == 1 and o.get("width", 2) == 2 and (run < n_gen or rng.random() < 0.2)
            p["precision"] = o["precision"]
        elif target in ("ns2d", "ns3d"):
            dim = 2 if target == "ns2d" else 3
            p.update(
                {
                    "dim": dim, "shape": list(rng.choice(SIM_SHAPES[dim])), "with_forcing": rng.random() < 0.6, "free_stream": rng.random() < 0.5, "zone": rng.choice([0, 2, 3]),
                    "steps": rng.choice([1, 2]), "queries": rng.random() < 0.5, "body": rng.random() < 0.5, "body_reset": rng.random() < 0.5,
                }
            )
            if dim == 3:
                p["filter"] = rng.choice([None, {"type": "multiplicative", "order": rng.randint(1, 2)}, {"type": "convolution", "order": rng.randint(1, 2)}])
                p["poisson"] = rng.choice(["greens", "fastdiag"])
        elif target == "passive":
            dim = rng.choice([2, 3])
            p.update({"dim": dim, "shape": list(rng.choice(SIM_SHAPES[dim])), "field_type": "scalar" if dim == 2 else rng.choice(["scalar", "vector"]), "steps": 1, "queries": True})
        elif target == "solver":
            dim = rng.choice([2, 3])
            p.update({"dim": dim, "shape": list(rng.choice(SHAPES[dim])), "vector": dim == 3 and rng.random() < 0.5, "view": rng.choice(["plain", "component", "inplace"])})
        else:
            dim = rng.choice([2, 3])
            p.update({"dim": dim, "shape": list(rng.choice(SIM_SHAPES[dim])), "reset": rng.random() < 0.5, "n_markers": rng.choice([3, 8, 24, 2500, 4100]), "evals": 2, "repeat_identical": rng.choice([0, 30, 60])})
            if p["n_markers"] > 100:
                p["repeat_identical"] = min(p["repeat_identical"], 30)
        if target != "gen":
            p["thread_diff"] = {"engine": "compiled" if rng.random() < 0.3 else "ir", "threads": rng.choice([2, 3, 4, 4])}
            if target == "interaction":
                # the interactor's documented default is num_threads=False (serial): compare against that, too
                p["thread_diff"]["serial_default"] = rng.random() < 0.5
                p["two_bodies"] = rng.random() < 0.5
            if target == "solver" and rng.random() < 0.5:
                # mid-sized buffers: size/thread-count thresholds sit between tiny and large
                p["shape"] = list(rng.choice([(40, 48), (24, 32)] if p["dim"] == 2 else [(10, 12, 14)]))
            if target in ("ns2d", "ns3d") and rng.random() < 0.35:
                # enough rows for thread-count dependent slab / chunk sizes to differ from the tiny-grid case
                p["shape"] = list(rng.choice([(40, 36), (33, 48)] if p["dim"] == 2 else [(17, 10, 12), (24, 9, 10)]))
                p["steps"] = 1
            if target == "passive" and p["dim"] == 2:
                p["shape"] = list(rng.choice([(18, 16), (10, 12), (13, 11)]))  # row counts not divisible by the thread count
        return p

    # ------------------------------------------------------------------ execute
    def execute(self, program, res):
        from .. import seams

        seams.install()
        seams.kernel_factory = lambda k: irsim.SimKernel(k)
        rt = Runtime(res, program["sched_seed"])
        rt.target = program["target"]
        irsim.SimKernel.runtime = rt
        install_alias_probes()
        _alias.update(enabled=True, res=res)
        _prange_state["mode"] = "identity"
        res.probe("target_" + program["target"])
        try:
            with np.errstate(all="ignore"):
                getattr(self, "_t_" + program["target"])(program, res, rt)
                if program["target"] != "gen" and program.get("thread_diff"):
                    self._thread_differential(program, res)
        finally:
            irsim.SimKernel.runtime = None
            seams.kernel_factory = None
            _alias.update(enabled=False, res=None)
        res.add_sim("kernel_launches", rt.launches)
        res.add_sim("cell_updates", rt.cells)
        res.nontrivial = (rt.launches > 0 and rt.cells >= 2) or program["target"] == "large"

    # ---- thread-count differential
    def _thread_differential(self, program, res):
        """The same program with SophT's num_threads = 1 and = T must give the same bits.

        Engine 'ir': kernels executed sequentially from the IR (catches thread-count dependent
        Python-level paths: chunked reductions, size/thread thresholds).  Engine 'compiled': the
        genuinely compiled kernels with real OpenMP threads (FFTW pinned to one thread) - here the
        scheduler is libgomp's, so a mismatch is reported only if it shows twice in a row.
        """
        from .. import seams

        engine = program["thread_diff"]["engine"]
        T = int(program["thread_diff"]["threads"])
        saved_rt, saved_factory, saved_alias = irsim.SimKernel.runtime, seams.kernel_factory, _alias["enabled"]
        _alias["enabled"] = False
        quiet = type("Quiet", (), {"probe": lambda *a, **k: None, "violation": lambda *a, **k: None, "add_sim": lambda *a, **k: None, "log": res.log, "sim": {}})()

        def run(nt):
            q = dict(program, num_threads=nt, repeat_identical=0)
            plain = Runtime(quiet, 0, explore=False)
            plain.target = program["target"]
            irsim.SimKernel.runtime = plain
            return getattr(self, "_t_" + program["target"])(q, quiet, plain)

        try:
            seams.kernel_factory = (lambda k: irsim.SimKernel(k)) if engine == "ir" else None
            attempts = 1 if engine == "ir" else 2
            bad = None
            base_nt = False if program["thread_diff"].get("serial_default") else 1
            for _ in range(attempts):
                a, b = run(base_nt), run(T)
                bad = [k for k in sorted(a) if a[k].tobytes() != b[k].tobytes()]
                if not bad:
                    break
            res.probe("thread_differential_" + engine)
            if bad:
                k0 = bad[0]
                dev = float(np.nanmax(np.abs(a[k0].astype(np.float64) - b[k0].astype(np.float64))))
                res.violation(
                    "thread_count_dependence",
                    {"target": program["target"], "engine": engine, "key": k0},
                    f"{program['target']} with num_threads={base_nt} and num_threads={T} ({engine} kernels) gives bitwise different '{k0}' (max dev {dev:.3e}; differing outputs: {bad})",
                )
        finally:
            irsim.SimKernel.runtime, seams.kernel_factory, _alias["enabled"] = saved_rt, saved_factory, saved_alias

    # ---- target: generator inventory
    def _t_gen(self, p, res, rt):
        from .. import seams

        dim, shape = p["dim"], tuple(p["shape"])
        real_t = _real_t(p["precision"])
        n0 = len(seams.created_kernels)
        try:
            wrapper = build_generator(p["gen"], dim, p["opts"], shape)
        except HarnessError:
            raise
        except Exception as e:  # noqa: BLE001
            # pystencils 2.0 cannot build the 4-D variants: recorded, not a finding
            res.probe("generator_not_buildable_in_sandbox")
            res.log.event("unbuildable", gen=p["gen"], opts=p["opts"], err=type(e).__name__)
            return
        new = [w for _, w in seams.created_kernels[n0:] if isinstance(w, irsim.SimKernel)]
        dry = Runtime(res, 0, explore=False)
        thunks = []
        if not isinstance(getattr(wrapper, "wrapper", wrapper), irsim.SimKernel):
            thunks.append(synth_call(wrapper, dim, shape, real_t, p["sub"], p["view"], dry))
        for idx, k in enumerate(new):
            # NB: never derive data from process-global counters (k.uid): one seed = one execution
            thunks.append(synth_call(k, dim, shape, real_t, p["sub"] + 1 + idx, p["view"], dry))
        for _ in range(p.get("repeats", 2)):
            for th in thunks:
                th()
        res.probe("kernels_built", len(new))
        if p.get("blocking_probe") and not res.violations:
            self._blocking_probe(wrapper, dim, real_t, p, res)
        if p.get("fidelity") and not res.violations:
            # (a kernel with a hazard legitimately differs between the sequential executor and a threaded build)
            self._fidelity(new, dim, shape, real_t, p, res)

    def _blocking_probe(self, wrapper, dim, real_t, p, res):
        """Blocking independence at wrapper level (compiled kernels, production-sized arrays).

        A stencil wrapper must give, on the interior of a block cut out of a large array (with a halo),
        the same values as on the large array itself: however a wrapper splits its index space into
        launches, slabs or tiles, no cell may be updated from values another cell's update wrote.
        Size-gated "cache blocking" paths only exist above some working-set size, hence the large array."""
        from .. import seams

        big = (1536, 1472) if dim == 2 else (176, 128, 120)
        halo, blk = 8, (64 if dim == 2 else 40)
        saved = (irsim.SimKernel.runtime, seams.kernel_factory, _alias["enabled"])
        irsim.SimKernel.runtime, seams.kernel_factory, _alias["enabled"] = None, None, False
        try:
            # argument shapes are learnt on the IR build of the same wrapper: the simulated kernels check ranks,
            # the compiled ones do not (a wrong-rank trial argument would be read out of bounds)
            try:
                seams.kernel_factory = lambda k: irsim.SimKernel(k)
                w_s = build_generator(p["gen"], dim, dict(p["opts"], fixed=False), big)
                inner_s = w_s.wrapper if isinstance(w_s, AliasProbe) else w_s
                thunk_args = self._probe_args(inner_s, dim, big, real_t, p["sub"])
            except Exception:  # noqa: BLE001  (wrappers tied to generation-time buffers of another shape, etc.)
                return
            finally:
                seams.kernel_factory = None
            if thunk_args is None:
                return
            try:
                w_c = build_generator(p["gen"], dim, dict(p["opts"], fixed=False), big)
            except Exception:  # noqa: BLE001
                return
            inner = w_c.wrapper if isinstance(w_c, AliasProbe) else w_c
            kw0 = thunk_args
            eps = float(np.finfo(real_t).eps)
            lo = [int(n // 2) - blk // 2 - halo for n in big]
            def compare_once(keep):
                # the block keeps the full extent along one axis, so that slabs / tiles along that axis on
                # the large array meet inside the block
                kw_big = {k: (v.copy() if isinstance(v, np.ndarray) else v) for k, v in kw0.items()}
                sl_halo = tuple(slice(0, big[ax]) if ax == keep else slice(lo[ax], lo[ax] + blk + 2 * halo) for ax in range(dim))
                kw_blk = {}
                for k, v in kw_big.items():
                    if isinstance(v, np.ndarray):
                        idx = sl_halo if v.ndim == dim else (slice(None), *sl_halo)
                        kw_blk[k] = np.ascontiguousarray(v[idx])
                    else:
                        kw_blk[k] = v
                with np.errstate(all="ignore"):
                    inner(**kw_blk)
                    inner(**kw_big)
                core = tuple(slice(halo, big[ax] - halo) if ax == keep else slice(halo, halo + blk) for ax in range(dim))
                for k, v in kw_big.items():
                    if not isinstance(v, np.ndarray):
                        continue
                    idx = sl_halo if v.ndim == dim else (slice(None), *sl_halo)
                    cidx = core if v.ndim == dim else (slice(None), *core)
                    a = np.asarray(v[idx][cidx], dtype=np.float64)
                    b = np.asarray(kw_blk[k][cidx], dtype=np.float64)
                    fin = np.isfinite(a) & np.isfinite(b)
                    tol = 256 * eps * np.maximum(1.0, np.abs(b))
                    if not np.all((np.abs(a - b) <= tol)[fin]):
                        return (k, float(np.max(np.abs(a - b)[fin])))
                return None

            for keep in range(dim):
                try:
                    bad = compare_once(keep)
                except (ValueError, TypeError, IndexError):
                    # the wrapper is tied to generation-time arrays of one shape (penalisation grids, filter
                    # buffers): it cannot be applied to a cut-out block
                    res.probe("blocking_probe_not_applicable")
                    return
                if bad:
                    # compiled kernels with real OpenMP threads: the scheduler is libgomp's, not the simulator's, so
                    # a mismatch only counts when it shows on a second, independent attempt (as in the compiled
                    # thread differential); a deterministic blocking dependence always does
                    res.probe("blocking_probe_mismatch_first_attempt")
                    bad = compare_once(keep)
                if bad:
                    # ... and in a newly forked process (nothing this process did before can play a part)
                    from ..driver import fork_map

                    confirmed = [pl for _, st_, pl in fork_map(lambda _k: compare_once(keep), [0], 1, 600) if st_ == "ok"]
                    if not confirmed or confirmed[0] is None:
                        res.probe("blocking_probe_mismatch_not_confirmed_in_new_process")
                        bad = None
                if bad:
                    res.violation(
                        "blocking_dependence",
                        {"gen": p["gen"], "param": bad[0]},
                        f"{p['gen']} {p['opts']}: on a {big} array the values of '{bad[0]}' inside a block (full extent along axis {keep}, {blk} cells along the others) differ from the same wrapper applied to that block cut out with a halo (max dev {bad[1]:.3e}): the result depends on how the index space is split",
                    )
                    break
            res.probe("blocking_probe_on_production_sized_array")
        finally:
            irsim.SimKernel.runtime, seams.kernel_factory, _alias["enabled"] = saved

    @staticmethod
    def _probe_args(wrapper, dim, shape, real_t, sub):
        """Keyword arguments for one call of a wrapper / bare kernel on arrays of `shape`."""
        g = prng.np_rng(sub, "blocking")
        if isinstance(wrapper, irsim.SimKernel) or (hasattr(wrapper, "parameters") and hasattr(wrapper, "kernel")):
            # bare kernel: fields by name, ranks from the kernel's own parameter list
            kw = {}
            for prm in wrapper.kernel.parameters:
                if prm.is_field_pointer:
                    fld = prm.fields[0]
                    vec = fld.spatial_dimensions + fld.index_dimensions == dim + 1
                    kw[fld.name] = g.standard_normal((dim, *shape) if vec else shape).astype(real_t)
                elif not prm.is_field_parameter:
                    kw[prm.name] = float(g.uniform(0.05, 0.3))
            return kw
        sig = inspect.signature(wrapper)
        arr_names, tup_names, sc_names = [], [], []
        for n in sig.parameters:
            ann = str(sig.parameters[n].annotation)
            (arr_names if "ndarray" in ann else tup_names if ("tuple" in ann or n in ("fixed_vals", "penalty_val")) else sc_names).append(n)
        small = tuple(12 for _ in range(dim))
        for assign in itertools.product([False, True], repeat=len(arr_names)):
            trial = {n: np.zeros((dim, *small) if vec else small, dtype=real_t) for n, vec in zip(arr_names, assign, strict=False)}
            trial.update({n: tuple(0.1 for _ in range(dim)) for n in tup_names})
            trial.update({n: 0.1 for n in sc_names})
            try:
                with np.errstate(all="ignore"):
                    wrapper(**trial)
            except Exception:  # noqa: BLE001
                continue
            kw = {n: g.standard_normal((dim, *shape) if vec else shape).astype(real_t) for n, vec in zip(arr_names, assign, strict=False)}
            kw.update({n: tuple(float(g.uniform(0.05, 0.3)) for _ in range(dim)) for n in tup_names})
            kw.update({n: float(g.uniform(0.05, 0.3)) for n in sc_names})
            return kw
        return None

    def _fidelity(self, kernels, dim, shape, real_t, p, res):
        """Executor fidelity self-test (not a property oracle): the simulated kernel, run
        sequentially, agrees with the genuinely compiled kernel on the same inputs to a few ulp."""
        from pystencils.codegen.kernel import Kernel

        orig_compile = Kernel.compile._orig
        eps = float(np.finfo(real_t).eps)
        saved = irsim.SimKernel.runtime
        irsim.SimKernel.runtime = None
        try:
            for idx, k in enumerate(kernels):
                compiled = orig_compile(k.kernel)
                syn = ArgSynth(dim, shape, real_t, p["sub"] + 99 + idx, "contig")
                kw = {}
                for fname, prm in sorted(k.fields.items()):
                    fld = prm.fields[0]
                    kw[fname] = syn.array(fld.spatial_dimensions + fld.index_dimensions == len(shape) + 1, fname)
                for prm in k.kernel.parameters:
                    if not prm.is_field_parameter:
                        kw[prm.name] = syn.scalar(prm.name)
                a = {n: (v.copy() if isinstance(v, np.ndarray) else v) for n, v in kw.items()}
                b = {n: (v.copy() if isinstance(v, np.ndarray) else v) for n, v in kw.items()}
                with np.errstate(all="ignore"):
                    k(**a)
                    compiled(**b)
                for n in a:
                    if isinstance(a[n], np.ndarray):
                        x, y = a[n].astype(np.float64), b[n].astype(np.float64)
                        # generic data make some kernels ill-conditioned (divisions by 1 + c*chi near zero,
                        # FMA contraction in the compiled code): gross-error threshold sqrt(eps) of the data scale
                        fin = np.isfinite(y) & np.isfinite(x)
                        tol = np.sqrt(eps) * max(1.0, float(np.max(np.abs(y[fin]), initial=0.0)))
                        if not np.all(np.abs(x - y)[fin] <= tol):
                            raise HarnessError(f"IR executor disagrees with the compiled kernel {k.name} ({p['gen']} {p['opts']}) on '{n}': max dev {float(np.max(np.abs(x - y))):.3e}")
                res.probe("executor_fidelity_checked_against_compiled_kernel")
        finally:
            irsim.SimKernel.runtime = saved

    # ---- target: Navier-Stokes simulators
    def _make_flow(self, p, dim):
        import sopht.simulator as sps

        real_t = _real_t(p["precision"])
        kw = dict(
            grid_size=tuple(p["shape"]), x_range=1.0, kinematic_viscosity=0.01, real_t=real_t, num_threads=p["num_threads"], with_forcing=p["with_forcing"] or p.get("body", False),
            with_free_stream_flow=p["free_stream"], flow_density=1.3, penalty_zone_width=p["zone"],
        )
        if dim == 3:
            if p.get("filter"):
                kw.update(filter_vorticity=True, filter_setting_dict=dict(p["filter"]))
            kw["poisson_solver_type"] = {"greens": "greens_function_convolution", "fastdiag": "fast_diagonalisation"}[p.get("poisson", "greens")]
            return sps.UnboundedNavierStokesFlowSimulator3D(**kw)
        return sps.UnboundedNavierStokesFlowSimulator2D(**kw)

    def _body(self, p, flow, dim, reset):
        from .c10 import _prog_grid_cls
        from sopht.simulator.immersed_body import ImmersedBodyFlowInteraction, ImmersedBodyForcingGrid

        n = p.get("n_markers", 4)
        g = prng.np_rng(p["sub"], "markers")
        dx = float(flow.dx)
        shape = flow.grid_size
        st = {"pos": np.zeros((dim, n)), "vel": g.standard_normal((dim, n)), "hmax": dx}
        for ax in range(dim):
            n_ax = shape[dim - 1 - ax]
            # clustered so that marker supports overlap (spreading accumulates), but spread over several
            # cells and unsorted, so that orderings derived from cell indices differ from the marker order
            lo, hi = 1.6, n_ax - 2.6
            mid = 0.5 * (lo + hi)
            half = min(1.6, 0.5 * (hi - lo))
            st["pos"][ax] = dx * (mid + 2.0 * half * (g.random(n) - 0.5))
        return ImmersedBodyFlowInteraction(
            flow.eul_grid_forcing_field, flow.velocity_field, np.zeros((3, 1)), np.zeros((3, 1)), _prog_grid_cls(ImmersedBodyForcingGrid), -500.0, -2.0, flow.dx, dim,
            real_t=flow.real_t, enable_eul_grid_forcing_reset=reset, num_threads=p["num_threads"], num_lag_nodes=n, state=st,
        )

    def _t_ns(self, p, res, rt, dim):
        flow = self._make_flow(p, dim)
        real_t = flow.real_t
        flow.vorticity_field[...] = prng.smooth_field(p["sub"], flow.vorticity_field.shape, real_t, 1.0, "w")
        flow.velocity_field[...] = prng.smooth_field(p["sub"], flow.velocity_field.shape, real_t, 1.0, "u")
        body = self._body(p, flow, dim, p.get("body_reset", False)) if p.get("body") else None
        fs = np.array([0.7, -0.2, 0.1][:dim])
        for _ in range(p["steps"]):
            if p.get("queries"):
                flow.compute_stable_timestep()
                if dim == 3:
                    flow.get_vorticity_divergence_l2_norm()
            if body is not None:
                self._spread_both_orders(body, flow.eul_grid_forcing_field, res)
                body.time_step(1e-3)
            elif p["with_forcing"]:
                flow.eul_grid_forcing_field[...] = prng.smooth_field(p["sub"], flow.eul_grid_forcing_field.shape, real_t, 1.0, "f")
            dt = flow.compute_stable_timestep(dt_prefac=0.25) if p.get("queries") else 2e-3
            if p["free_stream"]:
                flow.time_step(dt=dt, free_stream_velocity=fs)
            else:
                flow.time_step(dt=dt)
        res.add_sim("flow_steps", p["steps"])
        out = {"vorticity": flow.vorticity_field.copy(), "velocity": flow.velocity_field.copy(), "time": np.array([flow.time])}
        if body is not None:
            out["lag_force"] = body.lag_grid_forcing_field.copy()
        return out

    def _t_ns2d(self, p, res, rt):
        return self._t_ns(p, res, rt, 2)

    def _t_ns3d(self, p, res, rt):
        return self._t_ns(p, res, rt, 3)

    def _t_large(self, p, res, rt):
        """Size-gated wiring (memory-saving aliases, large-grid fast paths): one step on a production-sized
        grid with the compiled kernels; the aliasing-transparency probes at every gen_* call site stay on."""
        from .. import seams

        saved = (irsim.SimKernel.runtime, seams.kernel_factory)
        irsim.SimKernel.runtime, seams.kernel_factory = None, None
        try:
            self._t_ns(p, res, rt, p["dim"])
        finally:
            irsim.SimKernel.runtime, seams.kernel_factory = saved
        res.probe("production_sized_grid_compiled_alias_probe")

    def _t_passive(self, p, res, rt):
        import sopht.simulator as sps

        real_t = _real_t(p["precision"])
        sim = sps.PassiveTransportFlowSimulator(kinematic_viscosity=0.01, grid_dim=p["dim"], grid_size=tuple(p["shape"]), x_range=1.0, real_t=real_t, num_threads=p["num_threads"], field_type=p["field_type"])
        sim.primary_field[...] = prng.smooth_field(p["sub"], sim.primary_field.shape, real_t, 1.0, "p")
        sim.velocity_field[...] = prng.smooth_field(p["sub"], sim.velocity_field.shape, real_t, 1.0, "u")
        for _ in range(p["steps"]):
            dt = sim.compute_stable_timestep(dt_prefac=0.25)
            sim.time_step(dt=dt)
        res.add_sim("flow_steps", p["steps"])
        return {"primary": sim.primary_field.copy(), "time": np.array([sim.time])}

    def _t_solver(self, p, res, rt):
        import sopht.numeric.eulerian_grid_ops as spne

        real_t = _real_t(p["precision"])
        shape = tuple(p["shape"])
        if p["dim"] == 2:
            s = spne.UnboundedPoissonSolverPYFFTW2D(grid_size_y=shape[0], grid_size_x=shape[1], x_range=1.0, real_t=real_t, num_threads=p["num_threads"])
        else:
            s = spne.UnboundedPoissonSolverPYFFTW3D(grid_size_z=shape[0], grid_size_y=shape[1], grid_size_x=shape[2], x_range=1.0, real_t=real_t, num_threads=p["num_threads"])
        outs = {}
        for rep in range(2):
            if p.get("vector"):
                rhs = prng.smooth_field(p["sub"], (3, *shape), real_t, 1.0, "rhs", rep)
                sol = rhs if p["view"] == "inplace" else np.zeros_like(rhs)
                s.vector_field_solve(solution_vector_field=sol, rhs_vector_field=rhs)
                outs[f"sol{rep}"] = sol.copy()
            else:
                if p["view"] == "component":
                    carrier = prng.smooth_field(p["sub"], (3, *shape), real_t, 1.0, "rhs", rep)
                    rhs, sol = carrier[1], carrier[2]
                else:
                    rhs = prng.smooth_field(p["sub"], shape, real_t, 1.0, "rhs", rep)
                    sol = rhs if p["view"] == "inplace" else np.zeros_like(rhs)
                s.solve(solution_field=sol, rhs_field=rhs)
                outs[f"sol{rep}"] = np.array(sol)
        return outs

    def _spread_both_orders(self, body, forcing, res):
        """Oracle 3: spreading under a permuted prange equals the in-order result bit for bit."""
        before = forcing.copy()
        pub = {k: getattr(body, k).copy() for k in ("lag_grid_position_mismatch_field", "lag_grid_velocity_mismatch_field", "lag_grid_forcing_field")}
        _prange_state["mode"] = "identity"
        body()
        ref = forcing.copy()
        self._marker_order_reference(body, before, ref, res)
        for k, v in pub.items():
            getattr(body, k)[...] = v
        forcing[...] = before
        _prange_state["mode"] = "permuted"
        _prange_state["rng"] = random.Random(int(before.size) + 17)
        body()
        _prange_state["mode"] = "identity"
        res.probe("spreading_permuted_prange")
        if _prange_state.get("used"):
            res.probe("prange_loops_executed", _prange_state["used"])
            _prange_state["used"] = 0
        if forcing.tobytes() != ref.tobytes():
            res.violation(
                "spreading_order",
                {"site": "EulerianLagrangianGridCommunicator", "dim": body.grid_dim},
                f"Lagrangian->Eulerian spreading gives a bitwise different Eulerian field when its parallel-range marker loop runs in another order (max dev {float(np.max(np.abs(forcing.astype(np.float64) - ref.astype(np.float64)))):.3e}): the accumulation is not executed in a fixed serial marker order",
            )
            forcing[...] = ref

    def _scalar_communicator_probe(self, p, flow, body, dim, res):
        """The communicators' scalar-field entry point (n_components=1), used directly: spreading N markers in
        one call equals spreading them one at a time in index order."""
        import sopht.numeric.immersed_boundary_ops as ibo

        n = body.forcing_grid.num_lag_nodes
        if n > 64:
            return
        real_t = flow.real_t
        cls = ibo.EulerianLagrangianGridCommunicator2D if dim == 2 else ibo.EulerianLagrangianGridCommunicator3D
        comm = cls(dx=flow.dx, eul_grid_coord_shift=real_t(flow.dx / 2), num_lag_nodes=n, interp_kernel_width=2, real_t=real_t, n_components=1)
        support = np.empty((dim,) + (4,) * dim + (n,), dtype=real_t)
        nearest = np.empty((dim, n), dtype=int)
        weights = np.empty((4,) * dim + (n,), dtype=real_t)
        pos = np.asarray(body.forcing_grid.position_field)
        comm.local_eulerian_grid_support_of_lagrangian_grid_kernel(local_eul_grid_support_of_lag_grid=support, nearest_eul_grid_index_to_lag_grid=nearest, lag_positions=pos)
        comm.interpolation_weights_kernel(interp_weights=weights, local_eul_grid_support_of_lag_grid=support)
        start = prng.smooth_field(p["sub"], flow.velocity_field.shape[1:], real_t, 1.0, "scalar_eul")
        lag = prng.smooth_field(p["sub"], (n,), real_t, 1.0, "scalar_lag")
        got = start.copy()
        comm.lagrangian_to_eulerian_grid_interpolation_kernel(eul_grid_field=got, lag_grid_field=lag, interp_weights=weights, nearest_eul_grid_index_to_lag_grid=nearest)
        ref = start.copy()
        for i in range(n):
            masked = np.zeros_like(lag)
            masked[i] = lag[i]
            comm.lagrangian_to_eulerian_grid_interpolation_kernel(eul_grid_field=ref, lag_grid_field=masked, interp_weights=weights, nearest_eul_grid_index_to_lag_grid=nearest)
        res.probe("scalar_communicator_marker_reference")
        if not np.array_equal(ref, got):
            res.violation(
                "spreading_order",
                {"site": "scalar_communicator", "dim": dim},
                f"scalar Lagrangian->Eulerian spreading of {n} markers in one call differs bitwise from spreading them one at a time in index order (max dev {float(np.max(np.abs(ref.astype(np.float64) - got.astype(np.float64)))):.3e})",
            )

    def _marker_order_reference(self, body, before, got, res):
        """Fixed serial marker order, decided with the implementation's own spreading kernel: spreading
        the markers one at a time in index order (all other marker forces masked to zero, which adds
        exact zeros) must reproduce the batch call bit for bit."""
        n = body.lag_grid_forcing_field.shape[1]
        if n > 64:
            return
        kernel = body.eul_lag_grid_communicator.lagrangian_to_eulerian_grid_interpolation_kernel
        reset = getattr(body, "compute_interaction_forcing", None) == getattr(body, "compute_interaction_force_on_eul_and_lag_grid_with_eul_grid_forcing_reset", object())
        ref = np.zeros_like(before) if reset else before.copy()
        F = body.lag_grid_forcing_field
        for i in range(n):
            masked = np.zeros_like(F)
            masked[:, i] = F[:, i]
            kernel(eul_grid_field=ref, lag_grid_field=masked, interp_weights=body.interp_weights, nearest_eul_grid_index_to_lag_grid=body.nearest_eul_grid_index_to_lag_grid)
        res.probe("marker_by_marker_reference")
        if not np.array_equal(ref, got):
            res.violation(
                "spreading_order",
                {"site": "marker_by_marker_reference", "dim": body.grid_dim},
                f"one interaction call spreads a bitwise different Eulerian field than spreading its {n} markers one at a time in index order (max dev {float(np.max(np.abs(ref.astype(np.float64) - got.astype(np.float64)))):.3e}): accumulation is not in fixed serial marker order",
            )

    def _t_interaction(self, p, res, rt):
        dim = p["dim"]
        q = dict(p, with_forcing=True, free_stream=False, zone=2, body=True)
        flow = self._make_flow(q, dim)
        flow.velocity_field[...] = prng.smooth_field(p["sub"], flow.velocity_field.shape, flow.real_t, 1.0, "u")
        body = self._body(p, flow, dim, p["reset"])
        if p.get("two_bodies") and not p["reset"]:
            other = self._body(dict(p, sub=p["sub"] + 5, n_markers=3), flow, dim, False)
            other()  # another body has already spread onto the shared field
        for i in range(p["evals"]):
            self._spread_both_orders(body, flow.eul_grid_forcing_field, res)
            body.time_step(1e-2)
            body.compute_flow_forces_and_torques()
        self._scalar_communicator_probe(p, flow, body, dim, res)
        # the same request repeated many times on one long-lived object must give the same bits every
        # time: a spreading order that depends on the call history (cached / periodically refreshed
        # orderings) is not a fixed serial marker order
        first = None
        n_rep = int(p.get("repeat_identical", 0))
        for i in range(n_rep):
            flow.eul_grid_forcing_field[...] = 0
            body()
            cur = flow.eul_grid_forcing_field.copy()
            if first is None:
                first = cur
            elif cur.tobytes() != first.tobytes():
                res.violation(
                    "spreading_order",
                    {"site": "repeated_identical_request", "dim": dim},
                    f"identical interaction request number {i + 1} on the same object spread a bitwise different Eulerian field than request 1 (max dev {float(np.max(np.abs(cur.astype(np.float64) - first.astype(np.float64)))):.3e}): marker accumulation order depends on the call history",
                )
                break
        if n_rep:
            res.probe("repeated_identical_requests", n_rep)
        return {"forcing": flow.eul_grid_forcing_field.copy(), "lag_force": body.lag_grid_forcing_field.copy(), "X": body.lag_grid_position_mismatch_field.copy()}

    # ------------------------------------------------------------------ shrinking
    def shrink_lists(self, program):
        return []

    def simplify(self, program):
        for key, val in (("blocking_probe", False), ("fidelity", False), ("thread_diff", None), ("repeat_identical", 0), ("steps", 1), ("queries", False), ("body", False), ("filter", None), ("free_stream", False), ("zone", 0), ("poisson", "greens"), ("view", "contig"), ("repeats", 1), ("evals", 1)):
            if key in program and program[key] != val and not (key == "view" and program["target"] == "solver"):
                c = copy.deepcopy(program)
                c[key] = val
                yield c
        if program.get("with_forcing"):
            c = copy.deepcopy(program)
            c["with_forcing"] = False
            yield c
        if program["precision"] == "single" and program["target"] != "gen":
            c = copy.deepcopy(program)
            c["precision"] = "double"
            yield c


_prange_state = {"mode": "identity", "rng": None, "used": 0, "parallel": [False]}


def sim_prange(*args):
    """Stand-in for numba.prange when numba runs un-jitted.

    Inside a function compiled with parallel=True the iterations of a prange loop have no
    defined order: the simulator runs them in a seeded permuted order.  Without
    parallel=True numba executes prange exactly like range, and so does the simulator.
    """
    r = list(range(*args))
    if _prange_state["parallel"][-1]:
        _prange_state["used"] = _prange_state.get("used", 0) + 1
        if _prange_state["mode"] == "permuted" and _prange_state["rng"] is not None:
            _prange_state["rng"].shuffle(r)
    return r


def _sim_jit(*args, **kwargs):
    """numba.njit / numba.jit with JIT disabled, remembering the `parallel` option."""
    import functools

    parallel = bool(kwargs.get("parallel", False))

    def deco(fn):
        if not parallel:
            return fn

        @functools.wraps(fn)
        def run(*a, **k):
            _prange_state["parallel"].append(True)
            try:
                return fn(*a, **k)
            finally:
                _prange_state["parallel"].pop()

        return run

    if len(args) == 1 and callable(args[0]) and not kwargs:
        return args[0]
    if args and callable(args[0]):
        return deco(args[0])
    return deco


def install_numba_seam():
    """Must run before sopht (and other numba users) are imported."""
    import numba

    numba.prange = sim_prange
    numba.njit = _sim_jit
    numba.jit = _sim_jit


CHECK = C15()
