"""C18 - a run resumed from a checkpoint continues as the uninterrupted run would have.

Per simulated run (all real SophT / PyElastica code, see sim/coupled.py):
  * a pristine System F is constructed from the configuration alone;
  * phase 1 (forked process): the uninterrupted run, checkpointing the public state
    through the IO layer before every step index k, recording the trajectory; the
    process then dies - only the files in the scratch directory survive;
  * phase 2, for EVERY k (forked process each, starting from the never-stepped F):
    restore checkpoint k (through the real restart helper), continue, compare every
    public array after every step with the uninterrupted trajectory;
  * optionally the same for one k in a freshly exec'd interpreter;
  * restart-helper scenarios: empty directory, stale/skewed sets (numeric maximum,
    5-digit indices), peer clock skew, torn checkpoint set, recovery afterwards.
"""

from __future__ import annotations

import copy
import os
import pickle
import shutil
import subprocess
import sys

import numpy as np

from .. import prng
from ..coupled import BODY_KINDS, FLOWS, System, real_t_of
from ..driver import Check, HarnessError, fork_map, run_dir
from ..oplog import VERIF_ROOT

STATE_KEYS_AT_RESTORE = ("vorticity", "velocity", "time", ".X", ".V", ".pos", ".vel", ".omega", ".dir", ".clock")


def _is_state_key(key: str) -> bool:
    return key in ("vorticity", "velocity", "time") or any(key.endswith(s) for s in STATE_KEYS_AT_RESTORE[3:])


def _same_bits(a, b) -> bool:
    return a.shape == b.shape and a.dtype == b.dtype and a.tobytes() == b.tobytes()


def _max_dev(a, b) -> float:
    a = np.asarray(a, dtype=np.float64)
    b = np.asarray(b, dtype=np.float64)
    with np.errstate(invalid="ignore"):
        d = np.abs(a - b)
    d = np.where(np.isnan(a) & np.isnan(b), 0.0, d)
    d = np.where((a == b), 0.0, d)
    return float(np.nanmax(d)) if d.size and not np.all(np.isnan(d)) else (float("inf") if d.size and np.any(np.isnan(d)) else 0.0)


def check_markers_safe(system: System) -> None:
    dx = float(system.flow.dx)
    for b in system.bodies:
        p = b.inter.forcing_grid.position_field
        for ax in range(system.dim):
            n_ax = system.shape[system.dim - 1 - ax]
            if p[ax].min() < 1.6 * dx or p[ax].max() > (n_ax - 2.6) * dx:
                raise HarnessError(f"harness placed markers of {b.kind} outside the supported interior (axis {ax}: {p[ax].min() / dx:.2f}..{p[ax].max() / dx:.2f} of {n_ax} cells)")


def run_phase1(system: System, ops, store: str, same_process_k=None, workdir=None, prelude=None):
    if prelude is not None:
        # another simulation lived in the process of the uninterrupted run before it (other grid, same
        # kinds of objects): whatever it left in module- or class-level caches must not matter
        other = System(prelude)
        for op in prelude["ops"]:
            other.step(op)
        del other
    traj = []
    dts = []
    for k, op in enumerate(ops):
        system.checkpoint(k, store)
        traj.append(system.observe())
        dts.append(system.step(op))
        check_markers_safe(system)
    traj.append(system.observe())
    out = {"traj": traj, "dts": dts}
    if same_process_k is not None:
        # a restart in the very process that ran the uninterrupted run: fresh objects are
        # constructed next to the old, stepped ones (module- or class-level caches filled by
        # the old objects must not leak into the new ones)
        fresh = System(system.config)
        out["same_process"] = run_resume(fresh, ops, store, same_process_k, workdir)
    return out


def stage_checkpoint(store: str, dest: str, k: int, as_index: int | None = None, families=("sopht", "rod", "forcing", "store")) -> None:
    """Copy the files of checkpoint k into dest (optionally renamed to another index)."""
    os.makedirs(dest, exist_ok=True)
    j = k if as_index is None else as_index
    tag, new = f"{k:04d}", f"{j:04d}"
    for name in sorted(os.listdir(store)):
        if tag not in name:
            continue
        fam = "sopht" if name.startswith("sopht_") else "rod" if name.startswith("rod_") else "forcing" if name.startswith("forcing_grid") else "store"
        if fam not in families:
            continue
        src = os.path.join(store, name)
        dst = os.path.join(dest, name.replace(tag, new))
        if os.path.isdir(src):
            shutil.copytree(src, dst, dirs_exist_ok=True)
        else:
            shutil.copy(src, dst)


def run_resume(system: System, ops, store: str, k: int, workdir: str):
    """Restore checkpoint k into the pristine system and continue; returns observations."""
    d = os.path.join(workdir, f"resume-{k}")
    stage_checkpoint(store, d, k)
    # stale leftovers of lower indices must not matter
    if k >= 1:
        stage_checkpoint(store, d, k - 1, families=("sopht", "rod", "forcing"))
    try:
        t = system.restore(k, d, use_helper=True)
    except Exception as e:  # noqa: BLE001  the helper refused a complete, consistent checkpoint set
        shutil.rmtree(d, ignore_errors=True)
        return {"refused": f"{type(e).__name__}: {e}"}
    obs = [system.observe()]
    for j in range(k, len(ops)):
        system.step(ops[j])
        obs.append(system.observe())
    shutil.rmtree(d, ignore_errors=True)
    return {"t": float(t), "obs": obs}


class C18(Check):
    prop_id = "C18"
    level = "fault_enumeration"
    technique = "deterministic simulation with fault injection: crash after every step index of seeded coupled flow-body runs, restart from the durable files into never-stepped objects in a new process (and a fresh interpreter), trajectory oracle; restart-helper contract under stale/torn/skewed checkpoint sets"
    rule = (
        "a case is one program (simulator configuration, 0-2 immersed bodies, coupling-loop order, op list with dt/query/sub-step choices) drawn from VERIF_SEED; "
        "every step index k of the program is a crash point (exhaustive per program); non-trivial = at least 2 steps and the resumed trajectory was compared for every k; "
        "distinct = distinct canonical JSON of the program"
    )
    assumptions = [
        "FFTW planner pinned to FFTW_ESTIMATE, kernels run with num_threads=1 (schedule independence is C15)",
        "the PyElastica peer's durable store is simulated exactly (ea.save_state format on disk, loader without re-applying boundary conditions: upstream PyElastica issue #528)",
        "prescribed rigid-body kinematics are a function of simulation time, re-evaluated after restore",
        "violation threshold 1e3*eps(real_t)*(j-k+1)*max(1,|a|max); bit-identity is expected and its fraction reported",
        "grids bounded (2D 16x20 / 20x16, 3D 10x10x12 / 10x8x12), runs of 2..10 steps, 0-2 bodies",
    ]
    components = {
        "real": [
            "UnboundedNavierStokesFlowSimulator2D/3D (all flags), compiled pystencils kernels, FFTW execution, FastDiagPoissonSolver3D",
            "RigidBodyFlowInteraction / CosseratRodFlowInteraction, all forcing grids, numba communicators, FlowForces",
            "PyElastica BaseSystemCollection + PositionVerlet().step for dynamic bodies (cylinder, sphere, Cosserat rods)",
            "EulerianFieldIO / IO / CosseratRodIO + h5py, sopht.utils.restart_simulation",
        ],
        "stub": ["FFTW planning rigor", "sopht.utils.restart_sim.ea.load_state -> simulated peer store (exact array restore, programmable clock skew)"],
    }
    required_probes = [
        "crash_with_nonzero_integral", "crash_with_live_velocity_mismatch", "dt_changed_across_checkpoint", "queries_dirtied_scratch",
        "restart_in_new_process", "same_process_restart", "prelude_simulation_in_the_process_of_the_uninterrupted_run", "helper_stale_set", "late_start_time", "helper_empty_dir", "helper_clock_skew", "helper_torn_set", "helper_body_store_missing", "helper_five_digit_index",
    ]
    tiers = {
        "quick": {"runs": 128, "batch": 1, "timeout": 600},
        "thorough": {"runs": 4000, "batch": 1, "timeout": 900},
    }
    selftest_runs = {"quick": 6, "thorough": 48}

    # ------------------------------------------------------------------ warm-up
    def warmup(self, tier):
        from ..seams import install

        install()
        import elastica  # noqa: F401
        import sopht.simulator  # noqa: F401
        import sopht.utils  # noqa: F401

    def warm_configs(self):
        out = []
        for dim in (2, 3):
            for precision in ("single", "double"):
                for fi in range(len(FLOWS[dim])):
                    for zi, kind in enumerate([None, None, None, None] + BODY_KINDS[dim]):
                        c = self._base_config(dim, precision, fi)
                        c["zone"] = [0, 2, 3, 4][zi % 4]
                        c["bodies"] = [] if kind is None else [self._body_spec(kind)]
                        if dim == 3 and zi % 2:
                            c["filter"] = {"type": ["multiplicative", "convolution"][zi % 4 // 2], "order": 1}
                        if dim == 3 and zi % 3 == 0:
                            c["poisson"] = "fastdiag"
                        out.append(c)
        return out

    def _warm_one(self, c):
        s = System(c)
        op = {"dt": {"prefac": 0.5, "cap": 2e-3}, "queries": ["stable", "div", "dev"], "substeps": 1}
        s.step(op)
        s.step(op)
        return True

    def warm_if_stale(self, workers):
        import time as _time

        from ..driver import fork_map

        cfgs = self.warm_configs()
        sample = [cfgs[4], cfgs[len(cfgs) // 2 + 5], cfgs[-1]]
        fn = self._warm_one

        def timed(c):
            t0 = _time.monotonic()
            fn(c)
            return _time.monotonic() - t0

        slow = [x for x in fork_map(timed, sample, 3, 900) if x[1] != "ok" or x[2] > 15.0]
        if slow:
            print(f"JIT caches look stale ({len(slow)} of {len(sample)} sample configurations slow): re-warming")
            self.warm_all(workers)

    def warm_all(self, workers):
        cfgs = self.warm_configs()
        bad = [x for x in fork_map(self._warm_one, cfgs, workers, 1500) if x[1] != "ok"]
        # second parallel pass: near-free when cached, recompiles entries lost to concurrent index writers
        bad += [x for x in fork_map(self._warm_one, cfgs, workers, 1500) if x[1] != "ok"]
        return bad

    # ------------------------------------------------------------------ program
    @staticmethod
    def _base_config(dim, precision, fi):
        return {"dim": dim, "precision": precision, "flow": fi, "free_stream": [1.0, 0.0, 0.0][:dim], "zone": 2, "nu": 0.01, "rho": 1.0, "cfl": 0.1, "init_sub": 1, "vort_amp": 2.0, "bodies": []}

    @staticmethod
    def _body_spec(kind, rng=None):
        if rng is None:
            return {"kind": kind, "k": -5.0e2, "c": -1.0, "order": "A", "reset": False, "motion": {"amp": [0.3, 0.2, 0.2], "freq": 3.0, "spin": [0.3, 0.2, 2.0]}}
        return {
            "kind": kind, "k": rng.choice([-5.0e2, -2.0e3, -50.0]), "c": rng.choice([-1.0, -5.0, 0.0]), "order": rng.choice(["A", "B"]), "reset": rng.random() < 0.4,
            "motion": {"amp": [rng.choice([0.0, 0.3, -0.2]), rng.choice([0.0, 0.2]), rng.choice([0.0, 0.2])], "freq": rng.choice([1.0, 3.0, 7.0]), "spin": [rng.choice([0.0, 0.5]), rng.choice([0.0, -0.4]), rng.choice([0.0, 2.0, -1.0])]},
            "youngs": rng.choice([5.0e3, 2.0e4]), "density": rng.choice([2.0, 50.0]), "rod_density": rng.choice([50.0, 200.0]),
        }

    def draw(self, rng, tier, run):
        dim = 2 if rng.random() < 0.6 else 3
        precision = rng.choice(["single", "double"])
        c = self._base_config(dim, precision, rng.randrange(len(FLOWS[dim])))
        c["free_stream"] = rng.choice([None, [1.0, 0.0, 0.0][:dim], [0.7, -0.3, 0.2][:dim]])
        c["free_stream_ramp"] = c["free_stream"] is not None and rng.random() < 0.4
        c["zone"] = rng.choice([0, 2, 2, 3, 4])  # width 1 crashes inside penalise_field_boundary (out of scope, see DESIGN)
        c["nu"] = rng.choice([1.0e-2, 3.0e-3, 5.0e-2])
        c["rho"] = rng.choice([1.0, 0.5, 2.0])
        c["init_sub"] = prng.sub_seed(rng)
        c["flow_io"] = rng.choice(["convenience", "convenience", "plain"])
        c["time0"] = rng.choice([0.0, 0.0, 250.0, 1.0e4])  # restarted production runs start late
        c["vort_amp"] = rng.choice([2.0, 0.0, 5.0])
        if dim == 3:
            c["filter"] = rng.choice([None, None, {"type": "multiplicative", "order": rng.randint(1, 3)}, {"type": "convolution", "order": rng.randint(1, 3)}])
            c["poisson"] = rng.choice(["greens", "greens", "fastdiag"])
        nb = prng.weighted_choice(rng, [(0, 1), (1, 6), (2, 3)])
        if dim == 3 and c["flow"] == 2:
            nb = min(nb, 1)  # only 10 cells along x: room for one body
        c["bodies"] = [self._body_spec(rng.choice(BODY_KINDS[dim]), rng) for _ in range(nb)]
        c["with_forcing"] = nb > 0 or rng.random() < 0.5
        n = rng.randint(2, 6 if tier == "quick" else 10)
        if dim == 2 and rng.random() < (0.06 if tier == "quick" else 0.15):
            n = rng.randint(12, 16 if tier == "quick" else 30)  # state that only matters after many steps
        ops = []
        for _ in range(n):
            if rng.random() < 0.65:
                dt = {"prefac": rng.choice([0.5, 0.25, 1.0]), "cap": rng.choice([2.0e-3, 4.0e-3])}
            else:
                dt = rng.choice([2.0e-3, 1.0e-3, 3.3e-3, 5.0e-4])
            q = [x for x in ("stable", "div", "dev") if rng.random() < 0.4]
            ops.append({"dt": dt, "queries": q, "substeps": rng.choice([1, 2, 3])})
        scenarios = rng.sample(["empty", "stale", "skew", "torn", "five_digit"], k=rng.choice([1, 2, 2, 3]))
        if rng.random() < 0.3:
            pre = copy.deepcopy({k: v for k, v in c.items() if k not in ("ops", "helper")})
            pre["flow"] = (c["flow"] + 1) % len(FLOWS[dim])
            pre["nu"] = rng.choice([1.0e-2, 3.0e-3, 5.0e-2])
            pre["zone"] = rng.choice([0, 2, 3])
            pre["init_sub"] = prng.sub_seed(rng)
            pre["ops"] = [{"dt": 2.0e-3, "queries": ["stable"], "substeps": 1}, {"dt": 1.0e-3, "queries": [], "substeps": 2}]
            c["prelude"] = pre
        c["ops"] = ops
        c["helper"] = {"scenarios": scenarios, "sub": prng.sub_seed(rng)}
        c["fresh_interpreter"] = (rng.random() < (0.12 if tier == "quick" else 0.3))
        c["same_process"] = True
        c["same_process_k"] = rng.randrange(n)
        return c

    # ------------------------------------------------------------------ execute
    def execute(self, program, res):
        from ..seams import install

        install()
        real_t = real_t_of(program["precision"])
        eps = float(np.finfo(real_t).eps)
        ops = program["ops"]
        n = len(ops)
        wd = run_dir(f"c18-{os.getpid()}-{program.get('_run', 0)}")
        shutil.rmtree(wd, ignore_errors=True)
        os.makedirs(wd)
        store = os.path.join(wd, "store")
        os.makedirs(store)
        timeout = 280.0
        try:
            pristine = System(program)
            check_markers_safe(pristine)

            def in_fork(fn):
                for _, st, payload in fork_map(lambda _x: fn(), [0], 1, timeout):
                    if st != "ok":
                        raise HarnessError(f"forked phase failed ({st}): {str(payload)[-1500:]}")
                    return payload
                return None

            try:
                k_same = (program.get("same_process_k", 0) % n) if program.get("same_process", True) else None
                ph1 = in_fork(lambda: run_phase1(pristine, ops, store, k_same, wd, program.get("prelude")))
                if program.get("prelude"):
                    res.probe("prelude_simulation_in_the_process_of_the_uninterrupted_run")
            except HarnessError as e:
                if "outside the supported interior" in str(e) or "unable to broadcast" in str(e):
                    # the drawn program drives a body out of the region SophT supports (no boundary
                    # handling for the delta-function support): inadmissible input, not a finding
                    res.probe("program_inadmissible_body_left_domain")
                    res.log.event("inadmissible")
                    return
                raise
            traj, dts = ph1["traj"], ph1["dts"]
            res.add_sim("flow_steps", n)
            if program.get("time0", 0.0) > 0:
                res.probe("late_start_time")
            res.add_sim("flow_time", float(traj[-1]["time"][0]) - float(traj[0]["time"][0]))
            finite = bool(np.isfinite(traj[-1]["vorticity"]).all())
            if not finite:
                res.probe("uninterrupted_run_blew_up")
            res.log.event("phase1", n=n, dts=dts)
            for o in traj:
                for key in sorted(o):
                    res.log.array(key, o[key])
            nb = len(program["bodies"])
            n_bit = n_cmp = 0
            sig0 = {"dim": program["dim"], "bodies": [b["kind"] for b in program["bodies"]]}
            # ---------------- crash after every step index k
            for k in range(n):
                out = in_fork(lambda k=k: run_resume(pristine, ops, store, k, wd))
                res.fault("crash_after_step_index")
                res.probe("restart_in_new_process")
                self._probes_at(res, traj, dts, k, nb, ops)
                nb_, nc_ = self._compare(res, traj, out, k, eps, sig0, "forked")
                n_bit += nb_
                n_cmp += nc_
                res.add_sim("flow_steps", n - k)
                res.log.state("resume", program["dim"], program["precision"], sig0["bodies"], k, n, [sorted(op["queries"]) for op in ops[k : k + 1]])
            if "same_process" in ph1:
                res.fault("restart_in_the_process_of_the_old_objects")
                res.probe("same_process_restart")
                nb_, nc_ = self._compare(res, traj, ph1["same_process"], k_same, eps, sig0, "same_process")
                n_bit += nb_
                n_cmp += nc_
            # ---------------- fresh interpreter for one k
            if program.get("fresh_interpreter") and n >= 2:
                k = n // 2
                out = self._fresh_interpreter_resume(program, store, k, wd)
                res.fault("crash_then_fresh_interpreter")
                res.probe("fresh_interpreter_restart")
                nb_, nc_ = self._compare(res, traj, out, k, eps, sig0, "fresh_interpreter")
                n_bit += nb_
                n_cmp += nc_
            res.sim["arrays_compared"] = n_cmp
            res.sim["arrays_bit_identical"] = n_bit
            # ---------------- restart helper contract
            hs = program.get("helper", {})
            for sc in hs.get("scenarios", []):
                out = in_fork(lambda sc=sc: self._helper_scenario(pristine, program, store, wd, sc, hs.get("sub", 0), traj))
                for v in out["violations"]:
                    res.violation("restart_helper", dict(sig0, scenario=sc, what=v[0]), v[1])
                for f in out["faults"]:
                    res.fault(f)
                for p in out["probes"]:
                    res.probe(p)
                res.log.event("helper", scenario=sc, outcome=out["outcome"])
                res.log.state("helper", sc, out["outcome"])
            res.nontrivial = n >= 2 and n_cmp > 0
        finally:
            shutil.rmtree(wd, ignore_errors=True)

    def _probes_at(self, res, traj, dts, k, nb, ops):
        st = traj[k]
        for i in range(nb):
            if np.any(st[f"b{i}.X"] != 0):
                res.probe("crash_with_nonzero_integral")
            if np.any(st[f"b{i}.V"] != 0):
                res.probe("crash_with_live_velocity_mismatch")
        if 0 < k < len(dts) and dts[k] != dts[k - 1]:
            res.probe("dt_changed_across_checkpoint")
        if any(ops[j]["queries"] for j in range(0, k + 1)):
            res.probe("queries_dirtied_scratch")

    def _compare(self, res, traj, out, k, eps, sig0, mode):
        n_bit = n_cmp = 0
        t_want = float(traj[k]["time"][0])
        if "refused" in out:
            if np.isfinite(t_want):
                res.violation("restart_helper", dict(sig0, what="refused_valid_checkpoint", mode=mode), f"restart from the complete checkpoint set k={k} was refused: {out['refused']}")
            else:
                res.probe("checkpoint_time_not_finite")
            return 0, 0
        obs = out["obs"]
        if np.float64(out["t"]).tobytes() != np.float64(t_want).tobytes():
            res.violation("restart_helper", dict(sig0, what="returned_time", mode=mode), f"restart at k={k} returned time {out['t']!r}, checkpoint time {t_want!r}")
        for idx, o in enumerate(obs):
            j = k + idx
            ref = traj[j]
            for key in sorted(o):
                if idx == 0 and not _is_state_key(key):
                    continue
                a, b = o[key], ref[key]
                n_cmp += 1
                if _same_bits(a, b):
                    n_bit += 1
                    continue
                dev = _max_dev(a, b)
                scale = max(1.0, float(np.nanmax(np.abs(np.asarray(b, dtype=np.float64)))) if b.size else 1.0)
                if not np.isfinite(scale):
                    scale = 1.0
                tol = 1.0e3 * eps * (idx + 1) * scale
                if key == "time" or key.endswith(".clock"):
                    tol = 64 * 2.3e-16 * (j + 1) * scale
                res.probe("not_bit_identical_but_within_rounding" if dev <= tol else "trajectory_mismatch")
                if not dev <= tol:
                    kind = key.split(".")[-1]
                    res.violation(
                        "trajectory",
                        dict(sig0, key=kind, at_restore=idx == 0, mode=mode),
                        f"restart from checkpoint k={k} ({mode}): '{key}' after step {j} deviates from the uninterrupted run by {dev:.3e} > {tol:.3e}",
                        k,
                    )
                    return n_bit, n_cmp
        return n_bit, n_cmp

    # ------------------------------------------------------------------ fresh interpreter
    def _fresh_interpreter_resume(self, program, store, k, wd):
        req = os.path.join(wd, "resume_req.pkl")
        outp = os.path.join(wd, "resume_out.pkl")
        with open(req, "wb") as f:
            pickle.dump({"program": program, "store": store, "k": k, "wd": wd, "out": outp}, f)
        env = dict(os.environ)
        p = subprocess.run([sys.executable, os.path.join(VERIF_ROOT, "bin", "c18-resume"), req], env=env, capture_output=True, text=True, timeout=600)
        if p.returncode != 0 or not os.path.exists(outp):
            raise HarnessError(f"fresh-interpreter resume failed rc={p.returncode}: {p.stdout[-800:]} {p.stderr[-1500:]}")
        with open(outp, "rb") as f:
            return pickle.load(f)

    # ------------------------------------------------------------------ helper scenarios
    def _helper_scenario(self, system, program, store, wd, sc, sub, traj):
        """Runs in a forked process on the pristine system. Returns outcome + violations."""
        n = len(program["ops"])
        g = prng.np_rng(sub, "helper", sc)
        d = os.path.join(wd, f"helper-{sc}")
        shutil.rmtree(d, ignore_errors=True)
        os.makedirs(d)
        viol, faults, probes = [], [], []

        def state_matches(k):
            o = system.observe()
            bad = [key for key in ("vorticity", "velocity") if not _same_bits(o[key], traj[k][key])]
            for i in range(len(system.bodies)):
                for key in (f"b{i}.X", f"b{i}.V"):
                    if i == 0 and not _same_bits(o[key], traj[k][key]):
                        bad.append(key)
            return bad

        def call(restart_dir_index, skew=0.0):
            # restart_dir is chosen by the caller (as in the examples); index selection is the helper's
            import sopht.utils.restart_sim as rs

            cwd = os.getcwd()
            os.chdir(d)
            real = rs.ea
            sysm = system

            class Peer:
                def __getattr__(self, name):
                    return getattr(real, name)

                @staticmethod
                def load_state(simulator, rd, verbose=False):
                    return sysm.load_body_store(rd) + skew

            rs.ea = Peer()
            try:
                t = rs.restart_simulation(
                    restart_simulator=system.collection, io=system.io_flow, rod_io=system.io_rod,
                    forcing_io=system.io_forcing[0] if system.io_forcing else __import__("sopht.utils", fromlist=["IO"]).IO(dim=system.dim, real_dtype=system.real_t),
                    restart_dir=f"restart_data_{restart_dir_index:04d}",
                )
                return ("returned", float(t))
            except Exception as e:  # noqa: BLE001
                return ("raised", type(e).__name__)
            finally:
                rs.ea = real
                os.chdir(cwd)

        outcome = None
        if sc == "empty":
            # unrelated files only; no checkpoint at all
            for name in ("other.h5", "sopht.txt", "rod_0009.h5", "notes_0001.h5"):
                open(os.path.join(d, name), "w").close()
            os.makedirs(os.path.join(d, "restart_data_0000"), exist_ok=True)
            faults.append("empty_directory")
            probes.append("helper_empty_dir")
            outcome = call(0)
            if outcome[0] != "raised":
                viol.append(("proceeded_without_checkpoint", f"restart helper returned {outcome[1]!r} in a directory without any sopht_*.h5 checkpoint"))
        elif sc in ("stale", "five_digit"):
            # checkpoints of several step indices, renamed to arbitrary distinct indices
            ks = sorted(set(int(x) for x in g.integers(0, n, size=min(n, 3))))
            pool = [3, 7, 9, 10, 12, 99, 100, 101, 999, 1000, 2345]
            if sc == "five_digit":
                pool += [10000, 10001, 12345, 99999]
            new_idx = sorted(int(x) for x in g.choice(pool, size=len(ks), replace=False))
            if sc == "five_digit":
                new_idx[-1] = int(g.choice([10000, 10001, 12345, 99999]))
                new_idx = sorted(set(new_idx))
                ks = ks[: len(new_idx)]
                probes.append("helper_five_digit_index")
            # checkpoint time increases with step index; assign increasing indices to increasing k
            for k, j in zip(ks, new_idx, strict=False):
                stage_checkpoint(store, d, k, as_index=j)
            kmax, jmax = ks[-1], new_idx[-1]
            faults.append("stale_checkpoint_set")
            probes.append("helper_stale_set")
            outcome = call(jmax)
            t_want = float(traj[kmax]["time"][0])
            if outcome[0] != "returned":
                viol.append(("refused_valid_set", f"restart helper raised {outcome[1]} although a complete checkpoint with the largest index {jmax} exists (indices present: {new_idx})"))
            else:
                if np.float64(outcome[1]).tobytes() != np.float64(t_want).tobytes():
                    viol.append(("wrong_time", f"indices present {new_idx}: helper returned time {outcome[1]!r}, the largest-index checkpoint ({jmax}) has time {t_want!r}"))
                bad = state_matches(kmax)
                if bad:
                    viol.append(("not_largest_index", f"indices present {new_idx}: state after the helper differs from checkpoint {jmax} in {bad}"))
            if len(ks) >= 2:
                # peer store from an older checkpoint than the largest index: flow and body times disagree
                system2_outcome = call(new_idx[0])
                faults.append("peer_store_older_than_flow")
                if system2_outcome[0] != "raised":
                    viol.append(("time_mismatch_accepted", f"flow checkpoint {jmax} (t={t_want!r}) and body store of index {new_idx[0]} disagree in time but the helper returned {system2_outcome[1]!r}"))
        elif sc == "skew":
            k = int(g.integers(0, n))
            stage_checkpoint(store, d, k)
            skew = float(g.choice([1.0e-3, -2.0e-4, 1.0]))
            faults.append("peer_clock_skew")
            probes.append("helper_clock_skew")
            outcome = call(k, skew=skew)
            if outcome[0] != "raised":
                viol.append(("time_mismatch_accepted", f"body time skewed by {skew} against flow time but the helper returned {outcome[1]!r}"))
        elif sc == "torn":
            k = int(g.integers(1, n)) if n > 1 else 0
            after = str(g.choice(["flow", "rod", "forcing"]))
            fam = {"flow": ("sopht",), "rod": ("sopht", "rod"), "forcing": ("sopht", "rod", "forcing")}[after]
            if k >= 1:
                stage_checkpoint(store, d, k - 1)
            stage_checkpoint(store, d, k, families=fam)
            if after != "forcing":
                stage_checkpoint(store, d, k, families=("store",))
            faults.append("torn_checkpoint_set")
            probes.append("helper_torn_set")
            outcome = call(k)
            if after == "forcing":
                # the process died after the last h5 file and before the body store was written: there is
                # no body checkpoint for index k, the helper must refuse
                probes.append("helper_body_store_missing")
                if outcome[0] == "returned":
                    viol.append(("proceeded_without_body_checkpoint", f"flow, rod and forcing files of index {k} exist but the body store of that index does not; the helper returned {outcome[1]!r} instead of refusing"))
            elif outcome[0] == "returned":
                # allowed only if everything it loaded belongs to one index
                for kk in (k, k - 1):
                    if kk >= 0 and not state_matches(kk):
                        break
                else:
                    viol.append(("mixed_indices", f"torn set (index {k} has only {fam}): helper returned {outcome[1]!r} with components from different checkpoints"))
        # bounded recovery: a clean checkpoint followed by a restart succeeds
        if outcome is not None and outcome[0] == "raised":
            shutil.rmtree(d, ignore_errors=True)
            os.makedirs(d)
            k = n - 1
            stage_checkpoint(store, d, k)
            rec = call(k)
            probes.append("recovery_after_refused_restart")
            if rec[0] != "returned" or state_matches(k):
                viol.append(("no_recovery", f"after a refused restart, restarting from a clean checkpoint {k} gave {rec}"))
        shutil.rmtree(d, ignore_errors=True)
        return {"outcome": list(outcome) if outcome else None, "violations": viol, "faults": faults, "probes": probes}

    # ------------------------------------------------------------------ shrinking
    def simplify(self, program):
        if program["bodies"]:
            for i in range(len(program["bodies"])):
                c = copy.deepcopy(program)
                del c["bodies"][i]
                c["with_forcing"] = True
                yield c
        for key, val in (("flow_io", "convenience"), ("prelude", None), ("free_stream_ramp", False), ("time0", 0.0), ("filter", None), ("free_stream", None), ("zone", 0), ("poisson", "greens"), ("vort_amp", 0.0), ("fresh_interpreter", False), ("same_process", False)):
            if key in program and program[key] != val:
                c = copy.deepcopy(program)
                c[key] = val
                yield c
        if program.get("helper", {}).get("scenarios"):
            for i in range(len(program["helper"]["scenarios"])):
                c = copy.deepcopy(program)
                del c["helper"]["scenarios"][i]
                yield c
        for oi, o in enumerate(program["ops"]):
            if o["queries"]:
                c = copy.deepcopy(program)
                c["ops"][oi]["queries"] = []
                yield c
            if o["dt"] != 2.0e-3:
                c = copy.deepcopy(program)
                c["ops"][oi]["dt"] = 2.0e-3
                yield c
            if o["substeps"] != 1:
                c = copy.deepcopy(program)
                c["ops"][oi]["substeps"] = 1
                yield c
        for bi, b in enumerate(program["bodies"]):
            if b.get("reset"):
                c = copy.deepcopy(program)
                c["bodies"][bi]["reset"] = False
                yield c
        if program["precision"] == "single":
            c = copy.deepcopy(program)
            c["precision"] = "double"
            yield c

    def repair(self, program):
        if not program["ops"]:
            program["ops"] = [{"dt": 2.0e-3, "queries": [], "substeps": 1}]
        return program

    def sample(self, program):
        return {k: v for k, v in program.items()}

    def extra_evidence(self, agg):
        c = agg["sim"].get("arrays_compared", 0)
        b = agg["sim"].get("arrays_bit_identical", 0)
        return {"bit_identical_fraction": (b / c) if c else None, "crash_points": agg["faults"].get("crash_after_step_index", 0)}


CHECK = C18()
