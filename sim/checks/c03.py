"""C03 - unbounded Poisson solve equals the free-space Green's-function convolution,
whatever was solved before on the same solver object.

Simulated system: one or two long-lived real solver objects (real pystencils
kernels, real pyfftw execution, planner pinned).  The seeded program is a
history of solves; after every op the result is compared with the direct
summation model (models/green.py), which has no state at all.
"""

from __future__ import annotations

import numpy as np

from .. import prng
from ..driver import Check
from ..models.green import GreenModel

RHS_KINDS = [("smooth", 4), ("impulse", 4), ("zero", 2), ("big", 2), ("tiny", 1), ("checker", 1), ("weak", 2), ("edit_prev", 2)]
VIEW_KINDS = [("plain", 5), ("component", 2), ("padded", 2), ("inplace", 1), ("transposed", 1), ("interleaved", 1)]
X_RANGES = [1.0, 0.37, 6.283185307179586, 100.0, 1.0e-3, 2.5, 2.0e-6, 3.0e5, 2.0, 1, 3, 7]  # the last three are Python ints


def _real_t(precision):
    return np.float32 if precision == "single" else np.float64


class C03(Check):
    prop_id = "C03"
    level = "exploration"
    technique = "deterministic simulation: seeded solve histories on long-lived solver objects, op-by-op refinement against a direct-summation Green's-function model"
    rule = (
        "a case is one history (solver shapes/precision/domain length + op list) drawn from VERIF_SEED; "
        "non-trivial = at least 2 solves on one solver object with a non-zero rhs among them; "
        "distinct = distinct canonical JSON of the program"
    )
    assumptions = [
        "FFTW planner pinned to FFTW_ESTIMATE, 1 thread (plan choice is the only wall-clock dependence)",
        "pystencils 2.0 compatibility wrapper drops the unknown default_number_float keyword",
        "tolerance 128*eps(real_t)*h^d*max|G|*sum|f| per cell (measured worst case over 1500 histories: 9.2 of these units, FFT round-off grows with log of the doubled grid)",
        "shapes bounded: 2D sides 2..24, 3D sides 2..10",
    ]
    components = {
        "real": [
            "UnboundedPoissonSolverPYFFTW2D/3D (solve, vector_field_solve)",
            "FFTPyFFTW2D/3D plans executed by real FFTW",
            "compiled pystencils kernels set_fixed_val / elementwise_copy / complex_product",
        ],
        "stub": ["FFTW planning rigor (MEASURE -> ESTIMATE)"],
    }
    required_probes = ["zero_after_big", "two_solvers_interleaved", "vector_solve", "impulse_at_corner", "inplace", "non_square", "fft_unfriendly_size", "view_transposed", "view_interleaved", "large_grid_sparse_rhs", "two_solvers_differing_in_precision_only", "unrelated_fft_user_at_doubled_shape", "concurrent_solves_with_interleaving", "rhs_array_edited_in_place", "weak_rhs", "two_solvers_same_cell_count_other_shape"]
    tiers = {
        "quick": {"runs": 480, "batch": 6, "timeout": 240},
        "thorough": {"runs": 20000, "batch": 10, "timeout": 600},
    }
    selftest_runs = {"quick": 16, "thorough": 200}

    # ------------------------------------------------------------ warm-up
    def warmup(self, tier):
        from ..driver import fork_map
        from ..seams import install

        install()
        import sopht.numeric.eulerian_grid_ops  # noqa: F401

        # Populate the on-disk kernel cache in a forked child: the parent must never run an OpenMP
        # region before forking (a libgomp thread pool does not survive fork; a tree whose solver
        # constructor launches a kernel would otherwise hang or crash every child).
        def build(_):
            import sopht.numeric.eulerian_grid_ops as spne

            for rt in (np.float32, np.float64):
                for nt in (1, 2, 3, 4):
                    spne.UnboundedPoissonSolverPYFFTW2D(grid_size_y=2, grid_size_x=3, real_t=rt, num_threads=nt)
                    spne.UnboundedPoissonSolverPYFFTW3D(grid_size_z=2, grid_size_y=2, grid_size_x=3, real_t=rt, num_threads=nt)
            return True

        for _, st, payload in fork_map(build, [0], 1, 900):
            if st != "ok":
                from ..driver import HarnessError

                raise HarnessError(f"C03 warm-up failed ({st}): {str(payload)[-1500:]}")

    # ------------------------------------------------------------ program
    def _draw_shape(self, rng, dim, tier):
        hi = 24 if dim == 2 else 10
        if tier == "thorough" and rng.random() < 0.15:
            hi = 32 if dim == 2 else 12
        shape = [rng.randint(2, hi) for _ in range(dim)]
        if rng.random() < 0.1:
            # production-sized grids (size-dependent paths): checked with sparse right-hand sides only
            if dim == 2:
                return [rng.choice([48, 64, 81, 96, 100, 128]), rng.choice([48, 64, 80, 96, 128, 130])]
            if rng.random() < 0.25:
                return list(rng.choice([(36, 88, 88), (70, 64, 64), (40, 96, 80)]))  # more than 64^3 cells
            return [rng.choice([16, 24, 27, 32]), rng.choice([16, 20, 32, 40]), rng.choice([24, 32, 33, 48])]
        if rng.random() < 0.3:
            # sizes whose doubled length is not 2/3/5/7-smooth (FFT "fast length" paths), one axis at a
            # time so that the dense model stays small
            ax = rng.randrange(dim)
            shape[ax] = rng.choice([11, 13, 17, 19, 23, 26, 29, 31, 34, 37, 41, 43, 47])
            cap = 1600 if dim == 2 else 1400
            while int(np.prod(shape)) > cap:
                j = max((i for i in range(dim) if i != ax), key=lambda i: shape[i])
                shape[j] = max(2, shape[j] // 2)
        return shape

    def _draw_rhs(self, rng, shape):
        kind = prng.weighted_choice(rng, RHS_KINDS)
        if int(np.prod(shape)) > 2000 and kind not in ("impulse", "zero", "edit_prev"):
            kind = "impulse"
        r = {"kind": kind, "sub": prng.sub_seed(rng)}
        if kind == "edit_prev":
            r["how"] = rng.choice(["negate", "roll", "flip", "swap_two"])  # norm-preserving in-place edits of the caller's array
        if kind == "weak":
            r["scale"] = rng.choice([1.0e-9, 1.0e-12, 3.0e-17, 1.0e-20, 1.0e-30])  # linearity: weak sources are sources
        if kind == "impulse":
            cells = []
            for _ in range(rng.randint(1, 3)):
                if rng.random() < 0.6:
                    cell = [rng.choice([0, n - 1]) for n in shape]  # corners
                else:
                    cell = [rng.randrange(n) for n in shape]
                cells.append({"cell": cell, "val": rng.choice([1.0, -1.0, 2.5, 1e3, -3e-4, 1e6])})
            r["cells"] = cells
        return r

    def draw(self, rng, tier, run):
        dim = rng.choice([2, 2, 3])
        precision = rng.choice(["single", "double"])
        n_solvers = 1 if rng.random() < 0.6 else 2
        solvers = []
        for _ in range(n_solvers):
            solvers.append({"shape": self._draw_shape(rng, dim, tier), "x_range": rng.choice(X_RANGES), "num_threads": rng.choice([1, 1, 2, 3, 4])})
        if n_solvers == 2 and rng.random() < 0.4:
            # two solver objects alive together that differ only in the domain length
            solvers[1]["shape"] = list(solvers[0]["shape"])
            solvers[1]["x_range"] = rng.choice([x for x in X_RANGES if x != solvers[0]["x_range"]])
        elif n_solvers == 2 and len(set(solvers[0]["shape"])) > 1 and rng.random() < 0.3:
            # ... or have the same number of cells in another arrangement (axes permuted)
            perm = list(solvers[0]["shape"])
            while perm == solvers[0]["shape"]:
                rng.shuffle(perm)
            solvers[1]["shape"] = perm
        elif n_solvers == 2 and rng.random() < 0.4:
            # ... or only in precision (same grid, same - often dyadic - spacing), single precision built first or second
            solvers[1]["shape"] = list(solvers[0]["shape"])
            if rng.random() < 0.6:
                solvers[0]["shape"][-1] = solvers[1]["shape"][-1] = rng.choice([4, 8, 16])
                solvers[0]["x_range"] = rng.choice([1.0, 2.0])
            solvers[1]["x_range"] = solvers[0]["x_range"]
            first = rng.choice(["single", "double"])
            solvers[0]["precision"] = first
            solvers[1]["precision"] = "double" if first == "single" else "single"
        ops = []
        for _ in range(rng.randint(3, 12) if tier != "thorough" or rng.random() < 0.7 else rng.randint(20, 48)):
            s = rng.randrange(n_solvers)
            shape = solvers[s]["shape"]
            vec = dim == 3 and rng.random() < 0.3
            op = {
                "solver": s,
                "kind": "vsolve" if vec else "solve",
                "view": prng.weighted_choice(rng, VIEW_KINDS),
                "rhs": [self._draw_rhs(rng, shape) for _ in range(3 if vec else 1)],
            }
            if n_solvers == 2 and rng.random() < 0.15:
                # two caller threads, one solver object each, solving at the same time: the simulated scheduler
                # decides at every kernel / FFT call which thread continues
                ops.append({"solver": 0, "kind": "concurrent", "view": "plain", "sched": rng.getrandbits(32),
                            "rhs": [self._draw_rhs(rng, solvers[0]["shape"]), self._draw_rhs(rng, solvers[1]["shape"])]})
            if rng.random() < 0.1:
                # an unrelated user of the public FFT helper class in the same process, at the solver's doubled shape
                ops.append({"solver": s, "kind": "direct_fft", "how": rng.choice(["plan", "roundtrip"]), "view": "plain", "rhs": [{"kind": "smooth", "sub": prng.sub_seed(rng)}]})
            if rng.random() < 0.12:
                # fault: a solve aborted by an invalid argument (wrong dtype / wrong shape of the output or input)
                ops.append({"solver": s, "kind": "aborted_solve", "how": rng.choice(["out_dtype", "out_shape", "rhs_dtype"]), "view": "plain", "rhs": [self._draw_rhs(rng, shape)]})
            ops.append(op)
            # bias: a zero / tiny rhs right after a huge one exposes any leaked buffer content
            if op["rhs"][0]["kind"] == "big" and rng.random() < 0.7:
                ops.append(
                    {
                        "solver": s,
                        "kind": op["kind"],
                        "view": "plain",
                        "rhs": [{"kind": rng.choice(["zero", "tiny", "impulse"]) if int(np.prod(shape)) <= 2000 else rng.choice(["zero", "impulse"]), "sub": prng.sub_seed(rng), "cells": [{"cell": [0] * dim, "val": 1.0}]} for _ in op["rhs"]],
                    }
                )
        return {"dim": dim, "precision": precision, "solvers": solvers, "ops": ops}

    # ------------------------------------------------------------ helpers
    @staticmethod
    def _make_rhs(spec, shape, real_t):
        kind = spec["kind"]
        if kind == "zero":
            return np.zeros(shape, dtype=real_t)
        if kind == "impulse":
            a = np.zeros(shape, dtype=real_t)
            for c in spec["cells"]:
                cell = tuple(min(max(int(i), 0), n - 1) for i, n in zip(c["cell"], shape, strict=False))
                a[cell] += real_t(c["val"])
            return a
        if kind == "checker":
            idx = np.indices(shape).sum(axis=0)
            return (1.0 - 2.0 * (idx % 2)).astype(real_t)
        if kind == "edit_prev":
            # outside plain solves (aborted / concurrent ops) there is no held array to edit: two point sources
            a = np.zeros(shape, dtype=real_t)
            a[tuple(0 for _ in shape)] = real_t(1.0)
            a[tuple(n - 1 for n in shape)] = real_t(-2.0)
            return a
        scale = {"smooth": 1.0, "big": 1.0e6, "tiny": 1.0e-6, "weak": spec.get("scale", 1.0e-9)}[kind]
        return prng.smooth_field(spec["sub"], shape, real_t, scale)

    @staticmethod
    def _as_view(kind, arr, slot, fill):
        """Return (view into a carrier array, carrier) holding a copy of arr."""
        shape = arr.shape
        if kind == "component":
            carrier = np.full((3, *shape), fill, dtype=arr.dtype)
            v = carrier[slot % 3]
        elif kind == "padded":
            carrier = np.full(tuple(n + 3 for n in shape), fill, dtype=arr.dtype)
            v = carrier[tuple(slice(1, 1 + n) for n in shape)]
        elif kind == "transposed":
            carrier = np.full(shape[::-1], fill, dtype=arr.dtype)
            v = carrier.T  # Fortran-ordered view: non-unit innermost stride
        elif kind == "interleaved":
            carrier = np.full((*shape, 2), fill, dtype=arr.dtype)
            v = carrier[..., slot % 2]
        else:
            carrier = np.full(shape, fill, dtype=arr.dtype)
            v = carrier
        v[...] = arr
        return v, carrier

    # ------------------------------------------------------------ execute
    def execute(self, program, res):
        from ..seams import install

        install()
        import sopht.numeric.eulerian_grid_ops as spne

        dim = program["dim"]
        solvers, models, real_ts = [], [], []
        for s in program["solvers"]:
            real_t = _real_t(s.get("precision", program["precision"]))
            real_ts.append(real_t)
            shape = tuple(s["shape"])
            if dim == 2:
                solvers.append(spne.UnboundedPoissonSolverPYFFTW2D(grid_size_y=shape[0], grid_size_x=shape[1], x_range=s["x_range"], real_t=real_t, num_threads=int(s.get("num_threads", 1))))
            else:
                solvers.append(
                    spne.UnboundedPoissonSolverPYFFTW3D(
                        grid_size_z=shape[0], grid_size_y=shape[1], grid_size_x=shape[2], x_range=s["x_range"], real_t=real_t, num_threads=int(s.get("num_threads", 1))
                    )
                )
            models.append(GreenModel(shape, s["x_range"], real_t))
            if len(set(shape)) > 1:
                res.probe("non_square")
            if int(np.prod(shape)) > 2000:
                res.probe("large_grid_sparse_rhs")
            if any(n % 2 for n in shape):
                res.probe("odd_size")
            if any(n in (11, 13, 17, 19, 23, 26, 29, 31, 34, 37, 41, 43, 47) for n in shape):
                res.probe("fft_unfriendly_size")
        if len(program["solvers"]) == 2 and program["solvers"][0]["shape"] != program["solvers"][1]["shape"] and sorted(program["solvers"][0]["shape"]) == sorted(program["solvers"][1]["shape"]):
            res.probe("two_solvers_same_cell_count_other_shape")
        if len(program["solvers"]) == 2 and program["solvers"][0].get("precision") and program["solvers"][0]["shape"] == program["solvers"][1]["shape"]:
            res.probe("two_solvers_differing_in_precision_only")
        held = {}
        last_kind = {}
        last_solver = None
        n_solves = {}
        nonzero = False
        for i, op in enumerate(program["ops"]):
            s = op["solver"] % len(solvers)
            solver, model = solvers[s], models[s]
            real_t = real_ts[s]
            eps = float(np.finfo(real_t).eps)
            shape = model.shape
            if op["kind"] == "concurrent" and len(solvers) == 2:
                from ..baton import Baton, wrap_callables

                baton = Baton(2, op.get("sched", 0))
                fs = [self._make_rhs(op["rhs"][k], models[k].shape, real_ts[k]) for k in range(2)]
                outs2 = [np.full(models[k].shape, 7.7e5, dtype=real_ts[k]) for k in range(2)]
                undo = [wrap_callables(solvers[k], baton, k) for k in range(2)]
                try:
                    trace = baton.run([lambda k=k: solvers[k].solve(solution_field=outs2[k], rhs_field=fs[k]) for k in range(2)])
                finally:
                    for u in undo:
                        u()
                for k in range(2):
                    if baton.errors[k] is not None:
                        raise baton.errors[k]
                res.fault("concurrent_solves_interleaved")
                switches = sum(1 for a, b in zip(trace, trace[1:], strict=False) if a != b)
                res.probe("concurrent_solves_with_interleaving", 1 if switches >= 2 else 0)
                res.log.event("concurrent", trace=trace)
                for k in range(2):
                    epsk = float(np.finfo(real_ts[k]).eps)
                    want = models[k].solve(fs[k])
                    got = np.asarray(outs2[k], dtype=np.float64)
                    tol = models[k].tolerance(fs[k], epsk) + 4.0 * float(np.finfo(real_ts[k]).tiny)
                    with np.errstate(invalid="ignore"):
                        err = np.abs(got - want)
                    if (~(err <= tol)).any():
                        res.violation(
                            "green_convolution",
                            {"dim": dim, "op": "concurrent", "rhs": op["rhs"][k]["kind"], "after": "concurrent"},
                            f"op {i}: two solver objects solving concurrently (schedule {trace}): solver {k} shape {models[k].shape} deviates from the model by {float(np.nanmax(err)):.3e} > {tol:.3e}",
                            i,
                        )
                    res.log.array("out", outs2[k])
                    last_kind[k] = op["rhs"][k]["kind"]
                    n_solves[k] = n_solves.get(k, 0) + 1
                    if op["rhs"][k]["kind"] != "zero":
                        nonzero = True
                res.add_sim("solves", 2)
                continue
            if op["kind"] == "direct_fft":
                dshape = tuple(2 * n for n in shape)
                if int(np.prod(dshape)) <= 400000:
                    if dim == 2:
                        fft = spne.FFTPyFFTW2D(grid_size_y=dshape[0], grid_size_x=dshape[1], real_t=real_t)
                    else:
                        fft = spne.FFTPyFFTW3D(grid_size_z=dshape[0], grid_size_y=dshape[1], grid_size_x=dshape[2], real_t=real_t)
                    user = prng.smooth_field(op["rhs"][0]["sub"], dshape, real_t, 3.0)
                    four = np.zeros(fft.fourier_field_pyfftw_buffer.shape, dtype=fft.fourier_field_pyfftw_buffer.dtype)
                    if op.get("how") == "roundtrip" or dim == 3:
                        back = np.zeros_like(user)
                        if dim == 2:
                            fft.fft_ifft_plan_kernel(fourier_field=four, inv_fourier_field=back, field=user)
                    else:
                        fft.fft_plan(input_array=user, output_array=four)
                    res.probe("unrelated_fft_user_at_doubled_shape")
                    res.log.event("direct_fft", how=op.get("how"))
                continue
            if op["kind"] == "aborted_solve":
                f = self._make_rhs(op["rhs"][0], shape, real_t)
                other_t = np.float64 if real_t == np.float32 else np.float32
                how = op.get("how", "out_dtype")
                rhs_b = f.astype(other_t) if how == "rhs_dtype" else f
                out_b = np.zeros(shape, dtype=other_t) if how == "out_dtype" else np.zeros(tuple(n + 1 for n in shape) if how == "out_shape" else shape, dtype=real_t)
                try:
                    solver.solve(solution_field=out_b, rhs_field=rhs_b)
                    res.probe("invalid_argument_accepted")
                except Exception as e:  # noqa: BLE001
                    res.fault("solve_aborted_by_invalid_argument")
                    res.log.event("aborted", how=how, err=type(e).__name__)
                last_kind[s] = "aborted:" + op["rhs"][0]["kind"]
                continue
            vec = op["kind"] == "vsolve" and dim == 3
            ncomp = 3 if vec else 1
            specs = (op["rhs"] * 3)[:ncomp]
            rhs_arrays = []
            for kk, sp in enumerate(specs):
                if sp["kind"] == "edit_prev":
                    # the caller keeps one right-hand-side array per solver and edits it in place between solves
                    prev = held.get((s, kk))
                    if prev is None:
                        prev = self._make_rhs({"kind": "impulse", "cells": [{"cell": [0] * dim, "val": 1.0}, {"cell": [n - 1 for n in shape], "val": -2.0}]}, shape, real_t)
                    how = sp.get("how", "negate")
                    if how == "negate":
                        np.negative(prev, out=prev)
                    elif how == "roll":
                        prev[...] = np.roll(prev, 1, axis=-1)
                    elif how == "flip":
                        prev[...] = prev[::-1].copy()
                    else:
                        flat = prev.reshape(-1)
                        flat[0], flat[-1] = flat[-1].copy(), flat[0].copy()
                    held[(s, kk)] = prev
                    rhs_arrays.append(prev)
                    res.probe("rhs_array_edited_in_place")
                else:
                    a = self._make_rhs(sp, shape, real_t)
                    if int(np.prod(shape)) <= 2000 or sp["kind"] in ("impulse", "zero"):
                        held[(s, kk)] = a
                    rhs_arrays.append(a)
            view = op["view"]
            if vec:
                rhs_c = np.stack(rhs_arrays)
                if view in ("transposed", "interleaved"):
                    # vector fields stored component-last (a legal view with non-unit inner stride)
                    carrier = np.zeros((*shape, 3), dtype=real_t)
                    carrier[...] = np.moveaxis(rhs_c, 0, -1)
                    rhs_c = np.moveaxis(carrier, -1, 0)
                if view in ("transposed", "interleaved"):
                    sol_carrier = np.full((*shape, 3), 7.7e5, dtype=real_t)
                    sol_c = np.moveaxis(sol_carrier, -1, 0)
                else:
                    sol_c = rhs_c if view == "inplace" else np.full_like(rhs_c, 7.7e5)
                solver.vector_field_solve(solution_vector_field=sol_c, rhs_vector_field=rhs_c)
                outs = [sol_c[k] for k in range(3)]
                res.probe("vector_solve")
            else:
                if specs[0]["kind"] == "edit_prev" or view == "plain":
                    rhs_v, view = rhs_arrays[0], ("plain" if view != "inplace" else view)  # the caller's own array object
                    if view == "inplace":
                        rhs_v, view = rhs_arrays[0].copy(), "inplace"
                else:
                    rhs_v, _rc = self._as_view(view, rhs_arrays[0], i, -3.3e5)
                if view == "inplace":
                    sol_v = rhs_v
                else:
                    sol_v, _sc = self._as_view(view, np.full(shape, 7.7e5, dtype=real_t), i + 1, 9.9e5)
                solver.solve(solution_field=sol_v, rhs_field=rhs_v)
                outs = [sol_v]
                if view != "plain":
                    res.probe("view_" + view)
            if view == "inplace":
                res.probe("inplace")
            n_solves[s] = n_solves.get(s, 0) + 1
            for k in range(ncomp):
                f = rhs_arrays[k]
                kind = specs[k]["kind"]
                if kind != "zero":
                    nonzero = True
                if kind == "weak":
                    res.probe("weak_rhs")
                if kind == "impulse" and any(all(c in (0, n - 1) for c, n in zip(cc["cell"], shape, strict=False)) for cc in specs[k]["cells"]):
                    res.probe("impulse_at_corner")
                want = model.solve(f)
                got = np.asarray(outs[k], dtype=np.float64)
                # rounding-scaled tolerance plus the gradual-underflow floor of the working precision
                # (intermediates below the smallest normal number lose relative accuracy: not a defect)
                # (compiled kernels and FFTW may flush sub-normal numbers to zero)
                floor = 4.0 * float(np.finfo(real_t).tiny)
                tol = model.tolerance(f, eps) + floor
                if kind == "zero":
                    tol = float(np.finfo(real_t).tiny)
                with np.errstate(invalid="ignore"):
                    err = np.abs(got - want)
                bad = ~(err <= tol)
                worst = float(np.nanmax(err)) if err.size else 0.0
                unit = model.tolerance(f, eps, factor=1.0)
                if unit > 0 and np.isfinite(worst):
                    res.sim["max_err_units_x1000"] = max(res.sim.get("max_err_units_x1000", 0), int(min(1000 * worst / unit, 1e15)))
                if bad.any():
                    cell = tuple(int(c) for c in np.argwhere(bad)[0])
                    res.violation(
                        "green_convolution",
                        {"dim": dim, "op": op["kind"], "rhs": kind, "after": last_kind.get(s, "none")},
                        f"op {i} solver {s} shape {shape} comp {k}: |impl-model|={worst:.3e} > tol={tol:.3e} at cell {cell} "
                        f"(impl={got[cell]:.6e}, model={want[cell]:.6e}); previous rhs kind on this solver: {last_kind.get(s, 'none')}",
                        i,
                    )
                if last_kind.get(s) == "big" and kind in ("zero", "tiny", "impulse"):
                    res.probe("zero_after_big")
                last_kind[s] = kind
            if last_solver is not None and last_solver != s:
                res.probe("two_solvers_interleaved")
            last_solver = s
            res.log.event("op", i=i, solver=s, kind=op["kind"], view=view)
            for o in outs:
                res.log.array("out", o)
            res.log.state(program["dim"], program["precision"], list(shape), op["kind"], view, [sp["kind"] for sp in specs], last_kind.get(s))
            res.add_sim("solves", ncomp)
        res.nontrivial = nonzero and any(v >= 2 for v in n_solves.values())

    # ------------------------------------------------------------ shrinking
    def repair(self, program):
        ns = len(program["solvers"])
        program["ops"] = [o for o in program["ops"] if not (o["kind"] == "concurrent" and ns < 2)]
        for o in program["ops"]:
            o["solver"] = o["solver"] % ns
        return program

    def simplify(self, program):
        import copy

        # drop second solver
        if len(program["solvers"]) > 1:
            for keep in range(len(program["solvers"])):
                c = copy.deepcopy(program)
                c["solvers"] = [program["solvers"][keep]]
                c["ops"] = [dict(o, solver=0) for o in program["ops"] if o["solver"] == keep]
                yield c
        # shrink shapes
        for si, s in enumerate(program["solvers"]):
            for ax in range(len(s["shape"])):
                if s["shape"][ax] > 2:
                    for new in (2, s["shape"][ax] // 2, s["shape"][ax] - 1):
                        if 2 <= new < s["shape"][ax]:
                            c = copy.deepcopy(program)
                            c["solvers"][si]["shape"][ax] = new
                            yield c
            if s["x_range"] != 1.0:
                c = copy.deepcopy(program)
                c["solvers"][si]["x_range"] = 1.0
                yield c
        for oi, o in enumerate(program["ops"]):
            if o["view"] != "plain":
                c = copy.deepcopy(program)
                c["ops"][oi]["view"] = "plain"
                yield c
            if o["kind"] in ("aborted_solve", "direct_fft", "concurrent"):
                continue
            if o["kind"] == "vsolve":
                c = copy.deepcopy(program)
                c["ops"][oi]["kind"] = "solve"
                c["ops"][oi]["rhs"] = o["rhs"][:1]
                yield c
            for ri, r in enumerate(o["rhs"]):
                if r["kind"] not in ("impulse", "zero"):
                    c = copy.deepcopy(program)
                    c["ops"][oi]["rhs"][ri] = {"kind": "impulse", "sub": 0, "cells": [{"cell": [0] * program["dim"], "val": 1.0}]}
                    yield c
        if program["precision"] == "single":
            c = copy.deepcopy(program)
            c["precision"] = "double"
            yield c


CHECK = C03()
