"""pystencils backend-IR executor + simulated OpenMP runtime + race detector (C15).

`SimKernel` stands in for the JIT-compiled kernel.  It executes the backend IR of
that very kernel (Kernel.body) on the real numpy memory of the arguments: every
pointer parameter becomes a flat element view over the argument's own byte
extent, so two arguments that alias in memory alias in the simulation.  Loop
bounds, iteration slices, ghost layers and OpenMP pragmas are read from the IR.

A *cell* is one iteration of the innermost loop (all its statements: reads, then
writes).  The simulated runtime decides thread count, chunking and the order in
which cells of different threads interleave.
"""

from __future__ import annotations

import ctypes
import math
import random

import numpy as np

from .driver import HarnessError

_uid = [0]


def _py_name(name: str) -> str:
    out = "".join(ch if (ch.isalnum() or ch == "_") else "_" for ch in name)
    if out[0].isdigit():
        out = "_" + out
    return "v_" + out


def _np_dtype_of(ps_type):
    """numpy dtype of a pystencils scalar type (or of the pointee of a pointer type)."""
    t = ps_type
    base = getattr(t, "base_type", None)
    if base is not None:
        t = base
    npd = getattr(t, "numpy_dtype", None)
    if npd is None:
        raise HarnessError(f"irsim: no numpy dtype for type {ps_type!r}")
    return np.dtype(npd)


def _cdiv(a, b):
    q = abs(a) // abs(b)
    return q if (a >= 0) == (b >= 0) else -q


def _crem(a, b):
    return a - b * _cdiv(a, b)


class _Codegen:
    """Translate the IR of one kernel into Python source for a per-cell function."""

    def __init__(self, kernel) -> None:
        import pystencils.backend.ast.expressions as E
        import pystencils.backend.ast.structural as S

        self.E, self.S = E, S
        self.kernel = kernel
        self.consts: dict = {}
        self.pragmas: list = []
        self.loops: list = []  # (counter name, start src, stop src, step src)
        self.stmts: list = []  # python source lines of the cell body
        self.ptr_written: set = set()
        self.ptr_read: set = set()
        self.ptr_ids: dict = {}
        self.node_types: set = set()
        self.traced = False
        self._walk_structure(kernel.body, in_loop=False)
        if not self.loops:
            raise HarnessError("irsim: kernel without loop nest")

    # ---------------------------------------------------------------- structure
    def _walk_structure(self, node, in_loop):
        S = self.S
        self.node_types.add(type(node).__name__)
        if isinstance(node, S.PsBlock):
            loops_here = [c for c in node.statements if isinstance(c, S.PsLoop)]
            if len(loops_here) > 1:
                raise HarnessError("irsim: several loop nests in one block are not supported")
            for c in node.statements:
                self._walk_structure(c, in_loop)
        elif isinstance(node, S.PsPragma):
            self.pragmas.append((node.text, len(self.loops)))
        elif isinstance(node, S.PsComment):
            pass
        elif isinstance(node, S.PsLoop):
            ctr = _py_name(node.counter.symbol.name)
            self.loops.append((ctr, self.expr(node.start), self.expr(node.stop), self.expr(node.step)))
            self._walk_structure(node.body, True)
        elif isinstance(node, (S.PsAssignment, S.PsDeclaration, S.PsConditional)):
            # statements before the innermost loop are loop-invariant declarations: re-evaluating
            # them per cell is semantically identical (they are pure)
            self.stmts.append(node)
        else:
            raise HarnessError(f"irsim: unsupported structural node {type(node).__name__}")

    # ---------------------------------------------------------------- expressions
    def const(self, value, dtype):
        key = (repr(value), str(dtype))
        if key not in self.consts:
            self.consts[key] = (f"K{len(self.consts)}", dtype.type(value) if dtype.kind == "f" and dtype.itemsize == 4 else (float(value) if dtype.kind == "f" else int(value) if dtype.kind in "iu" else bool(value)))
        return self.consts[key][0]

    def expr(self, n) -> str:
        E = self.E
        self.node_types.add(type(n).__name__)
        if isinstance(n, E.PsSymbolExpr):
            return _py_name(n.symbol.name)
        if isinstance(n, E.PsConstantExpr):
            c = n.constant
            return self.const(c.value, _np_dtype_of(c.dtype))
        if isinstance(n, E.PsLiteralExpr):
            txt = n.literal.text
            table = {"INFINITY": "math.inf", "-INFINITY": "(-math.inf)", "M_PI": "math.pi", "true": "True", "false": "False"}
            if txt in table:
                return table[txt]
            raise HarnessError(f"irsim: unsupported literal {txt}")
        if isinstance(n, E.PsMemAcc):
            return self.mem_read(n)
        if isinstance(n, E.PsTernary):
            return f"({self.expr(n.case_then)} if {self.expr(n.condition)} else {self.expr(n.case_else)})"
        if isinstance(n, E.PsCast):
            return f"{self.cast_fn(n.target_type)}({self.expr(n.operand)})"
        if isinstance(n, E.PsCall):
            return self.call(n)
        if isinstance(n, E.PsNeg):
            return f"(-{self.expr(n.operand)})"
        if isinstance(n, E.PsNot):
            return f"(not {self.expr(n.operand)})"
        binops = {
            E.PsAdd: "+", E.PsSub: "-", E.PsMul: "*", E.PsDiv: "/", E.PsGt: ">", E.PsLt: "<", E.PsGe: ">=", E.PsLe: "<=", E.PsEq: "==", E.PsNe: "!=",
            E.PsAnd: "and", E.PsOr: "or", E.PsBitwiseAnd: "&", E.PsBitwiseOr: "|", E.PsBitwiseXor: "^", E.PsLeftShift: "<<", E.PsRightShift: ">>",
        }
        for cls, op in binops.items():
            if type(n) is cls:
                return f"({self.expr(n.operand1)} {op} {self.expr(n.operand2)})"
        if isinstance(n, E.PsIntDiv):
            return f"_cdiv({self.expr(n.operand1)}, {self.expr(n.operand2)})"
        if isinstance(n, E.PsRem):
            return f"_crem({self.expr(n.operand1)}, {self.expr(n.operand2)})"
        raise HarnessError(f"irsim: unsupported expression node {type(n).__name__}")

    def cast_fn(self, target_type) -> str:
        d = _np_dtype_of(target_type)
        if d.kind == "f":
            return "_f32" if d.itemsize == 4 else "float"
        if d.kind in "iu":
            return "int"
        if d.kind == "b":
            return "bool"
        raise HarnessError(f"irsim: unsupported cast target {target_type!r}")

    def call(self, n) -> str:
        fn = n.function
        name = getattr(fn, "name", None)
        func = getattr(fn, "func", None)
        if func is not None and hasattr(func, "function_name"):
            name = func.function_name
        elif func is not None and hasattr(func, "name"):
            name = func.name
        if name is None:
            name = str(fn)
        key = str(name).lower()
        args = [self.expr(a) for a in n.args]
        f = {
            "sin": "math.sin", "cos": "math.cos", "tan": "math.tan", "exp": "math.exp", "log": "math.log", "sqrt": "math.sqrt", "abs": "abs", "fabs": "abs",
            "floor": "math.floor", "ceil": "math.ceil", "pow": "math.pow", "atan2": "math.atan2", "sinh": "math.sinh", "cosh": "math.cosh", "tanh": "math.tanh",
            "asin": "math.asin", "acos": "math.acos", "atan": "math.atan", "min": "min", "max": "max", "fmin": "min", "fmax": "max",
        }
        if key not in f and key.endswith("f") and key[:-1] in f:
            key = key[:-1]
        if key not in f:
            raise HarnessError(f"irsim: unsupported function {name!r} ({type(fn).__name__})")
        return f"_like({args[0]}, {f[key]}({', '.join(args)}))"

    def pid(self, pname) -> int:
        return self.ptr_ids.setdefault(pname, len(self.ptr_ids))

    def _ptr(self, n):
        E = self.E
        if not isinstance(n.pointer, E.PsSymbolExpr):
            raise HarnessError("irsim: pointer arithmetic on non-symbol base")
        return n.pointer.symbol.name

    def mem_read(self, n) -> str:
        p = self._ptr(n)
        self.ptr_read.add(p)
        idx = self.expr(n.offset)
        if self.traced:
            return f"_rd(M{_py_name(p)}, B{_py_name(p)} + {idx}, A{_py_name(p)}, R, W, {self.pid(p)})"
        return f"M{_py_name(p)}[B{_py_name(p)} + {idx}]"

    def stmt(self, node, indent: str) -> list:
        S, E = self.S, self.E
        self.node_types.add(type(node).__name__)
        if isinstance(node, S.PsDeclaration):
            return [f"{indent}{_py_name(node.declared_symbol.name)} = {self.expr(node.rhs)}"]
        if isinstance(node, S.PsAssignment):
            lhs = node.lhs
            if isinstance(lhs, E.PsMemAcc):
                p = self._ptr(lhs)
                self.ptr_written.add(p)
                idx = self.expr(lhs.offset)
                rhs = self.expr(node.rhs)
                if self.traced:
                    return [f"{indent}_wr(M{_py_name(p)}, B{_py_name(p)} + {idx}, A{_py_name(p)}, R, W, {self.pid(p)}, {rhs})"]
                return [f"{indent}M{_py_name(p)}[B{_py_name(p)} + {idx}] = {rhs}"]
            if isinstance(lhs, E.PsSymbolExpr):
                return [f"{indent}{_py_name(lhs.symbol.name)} = {self.expr(node.rhs)}"]
            raise HarnessError(f"irsim: unsupported assignment target {type(lhs).__name__}")
        if isinstance(node, S.PsConditional):
            out = [f"{indent}if {self.expr(node.condition)}:"]
            body = []
            for c in node.branch_true.statements:
                body += self.stmt(c, indent + "    ")
            out += body or [indent + "    pass"]
            if node.branch_false is not None:
                out.append(f"{indent}else:")
                body = []
                for c in node.branch_false.statements:
                    body += self.stmt(c, indent + "    ")
                out += body or [indent + "    pass"]
            return out
        if isinstance(node, S.PsComment):
            return []
        raise HarnessError(f"irsim: unsupported statement {type(node).__name__}")

    def source(self, traced: bool) -> str:
        self.traced = traced
        ctrs = [l[0] for l in self.loops]
        body = []
        for s in self.stmts:
            body += self.stmt(s, "            ")
        params = [_py_name(p.name) for p in self.kernel.parameters if not p.is_field_pointer]
        ptrs = [p.name for p in self.kernel.parameters if p.is_field_pointer]
        args = []
        for p in ptrs:
            args += [f"M{_py_name(p)}", f"B{_py_name(p)}", f"A{_py_name(p)}"]
        args += params
        fname = "make_traced" if traced else "make_plain"
        extra = ", R, W" if traced else ""
        lines = [f"def {fname}({', '.join(args)}):"]
        lines.append("    def bounds():")
        lines.append("        return [" + ", ".join(f"({a}, {b}, {c})" for _, a, b, c in self.loops) + "]")
        lines.append(f"    def run(cells{extra}):")
        if traced:
            lines.append("        for cell in cells:")
            lines.append("            " + ", ".join(ctrs) + ("," if len(ctrs) == 1 else "") + " = cell")
            lines.append("            R.append([]); W.append([])")
        else:
            lines.append("        for " + ", ".join(ctrs) + ("," if len(ctrs) == 1 else "") + " in cells:")
        lines += body or ["            pass"]
        lines.append("    return bounds, run")
        return "\n".join(lines)


def _like(x, y):
    """libm result in the precision of the argument."""
    if isinstance(x, np.float32):
        return np.float32(y)
    return y


def _rd(mem, i, addr0, R, W, pid):
    # (sequence number within the cell, global element address, parameter id)
    R[-1].append((len(R[-1]) + len(W[-1]), addr0 + i, pid))
    return mem[i]


def _wr(mem, i, addr0, R, W, pid, val):
    W[-1].append((len(R[-1]) + len(W[-1]), addr0 + i, pid))
    mem[i] = val


class SimKernel:
    """Callable replacement of a compiled pystencils kernel."""

    runtime = None  # set by the C15 check: object with .launch(simk, bound)

    def __init__(self, kernel) -> None:
        self.kernel = kernel
        _uid[0] += 1
        self.uid = _uid[0]
        self.name = kernel.name
        self.code = kernel.get_c_code()
        cg = _Codegen(kernel)
        self.cg = cg
        ns = {"math": math, "_cdiv": _cdiv, "_crem": _crem, "_like": _like, "_rd": _rd, "_wr": _wr, "_f32": np.float32, "_exp2": lambda x: 2.0**x, "np": np}
        src_plain = cg.source(False)
        src_traced = cg.source(True)
        for cname, cval in cg.consts.values():
            ns[cname] = cval
        exec(compile(src_plain, f"<simkernel {self.uid}>", "exec"), ns)  # noqa: S102
        exec(compile(src_traced, f"<simkernel {self.uid} traced>", "exec"), ns)  # noqa: S102
        self.make_plain = ns["make_plain"]
        self.make_traced = ns["make_traced"]
        self.src = src_plain
        self.ptr_written = set(cg.ptr_written)
        self.ptr_read = set(cg.ptr_read)
        self.n_loops = len(cg.loops)
        # OpenMP: num_threads from the pragma text, parallel loop level
        self.omp_threads = None
        self.omp_schedule = None
        for text, level in cg.pragmas:
            if "omp parallel" in text and "num_threads(" in text:
                self.omp_threads = int(text.split("num_threads(")[1].split(")")[0])
            if "omp for" in text or "omp parallel for" in text:
                self.omp_schedule = text
        self.fields = {}
        for p in kernel.parameters:
            if p.is_field_pointer:
                self.fields[p.fields[0].name] = p
        self.node_types = set(cg.node_types)

    # ------------------------------------------------------------ binding
    def bind(self, kwargs):
        """Bind call arguments like the real wrapper does: arrays by field name, scalars by name."""
        from pystencils.codegen.properties import FieldBasePtr, FieldShape, FieldStride

        arrays = {}
        vals = {}
        ptr_info = {}
        for p in self.kernel.parameters:
            if p.is_field_pointer:
                fname = p.fields[0].name
                if fname not in kwargs:
                    raise HarnessError(f"irsim: missing array argument '{fname}' for kernel {self.name}")
                arr = kwargs[fname]
                if not isinstance(arr, np.ndarray):
                    raise HarnessError(f"irsim: argument '{fname}' is not an ndarray")
                fld = p.fields[0]
                if arr.ndim != fld.spatial_dimensions + fld.index_dimensions:
                    raise ValueError(f"Rank mismatch for field {fname}: array has {arr.ndim} dims, field has {fld.spatial_dimensions + fld.index_dimensions}")
                want = _np_dtype_of(p.dtype)
                if arr.dtype != want:
                    raise TypeError(f"Data type mismatch for field {fname}: {arr.dtype} given, {want} expected")
                arrays[fname] = arr
        for p in self.kernel.parameters:
            if p.is_field_pointer:
                arr = arrays[p.fields[0].name]
                item = arr.dtype.itemsize
                lo = hi = 0
                for n_i, s_i in zip(arr.shape, arr.strides, strict=False):
                    if n_i == 0:
                        continue
                    ext = (n_i - 1) * s_i
                    if ext < 0:
                        lo += ext
                    else:
                        hi += ext
                nbytes = hi - lo + item
                addr_lo = arr.ctypes.data + lo
                if arr.size == 0:
                    flat = np.empty(0, dtype=arr.dtype)
                else:
                    raw = np.ctypeslib.as_array((ctypes.c_byte * nbytes).from_address(addr_lo))
                    flat = raw.view(arr.dtype)
                if addr_lo % item:
                    raise HarnessError("irsim: unaligned array")
                ptr_info[p.name] = (flat, (-lo) // item, addr_lo // item, arr)
            elif p.is_field_shape or p.is_field_stride:
                for prop in p.properties:
                    if isinstance(prop, FieldShape):
                        vals[p.name] = int(arrays[prop.field.name].shape[prop.coordinate])
                    elif isinstance(prop, FieldStride):
                        a = arrays[prop.field.name]
                        vals[p.name] = int(a.strides[prop.coordinate] // a.dtype.itemsize)
            else:
                if p.name not in kwargs:
                    raise HarnessError(f"irsim: missing scalar argument '{p.name}' for kernel {self.name}")
                d = _np_dtype_of(p.dtype)
                v = kwargs[p.name]
                vals[p.name] = (np.float32(v) if d.itemsize == 4 else float(v)) if d.kind == "f" else int(v)
        _ = FieldBasePtr
        return ptr_info, vals

    def instantiate(self, ptr_info, vals, traced=False):
        args = []
        for p in self.kernel.parameters:
            if p.is_field_pointer:
                flat, base, addr0, _ = ptr_info[p.name]
                args += [flat, base, addr0]
        for p in self.kernel.parameters:
            if not p.is_field_pointer:
                args.append(vals[p.name])
        return (self.make_traced if traced else self.make_plain)(*args)

    def __call__(self, **kwargs):
        rt = SimKernel.runtime
        if rt is None:
            # no runtime installed: plain sequential execution
            ptr_info, vals = self.bind(kwargs)
            bounds, run = self.instantiate(ptr_info, vals)
            run(program_order(bounds()))
            return None
        return rt.launch(self, kwargs)


def program_order(bounds):
    """All cells of the loop nest in sequential program order."""
    ranges = [range(a, b, c) for a, b, c in bounds]
    if len(ranges) == 1:
        return [(i,) for i in ranges[0]]
    if len(ranges) == 2:
        return [(i, j) for i in ranges[0] for j in ranges[1]]
    if len(ranges) == 3:
        return [(i, j, k) for i in ranges[0] for j in ranges[1] for k in ranges[2]]
    import itertools

    return list(itertools.product(*ranges))


# ---------------------------------------------------------------------- simulated OpenMP runtime

POLICIES = ["static", "static", "dynamic", "permuted", "reverse", "static_chunk1", "inner_reverse"]


def draw_schedule(rng: random.Random, n_outer: int, omp_threads):
    t_choices = [1, 2, 3, 4, 7, 16, n_outer + 3]
    if omp_threads:
        t_choices.append(omp_threads)
    return {"threads": rng.choice(t_choices), "policy": rng.choice(POLICIES), "seed": rng.getrandbits(32), "burst": rng.choice([1, 1, 2, 5])}


def scheduled_order(cells, bounds, sched):
    """Order in which the simulated runtime executes the cells."""
    rng = random.Random(sched["seed"])
    policy = sched["policy"]
    if policy == "permuted":
        out = list(cells)
        rng.shuffle(out)
        return out
    if policy == "reverse":
        return list(reversed(cells))
    outer = list(range(*bounds[0]))
    by_outer: dict = {}
    for c in cells:
        by_outer.setdefault(c[0], []).append(c)
    if policy == "inner_reverse":
        for k in by_outer:
            by_outer[k].reverse()
    T = max(1, int(sched["threads"]))
    threads = [[] for _ in range(T)]
    n = len(outer)
    if policy in ("static", "inner_reverse"):
        # libgomp static: contiguous blocks, the first n % T threads get one more
        q, r = divmod(n, T)
        pos = 0
        for t in range(T):
            cnt = q + (1 if t < r else 0)
            for o in outer[pos : pos + cnt]:
                threads[t] += by_outer.get(o, [])
            pos += cnt
    elif policy == "static_chunk1":
        for i, o in enumerate(outer):
            threads[i % T] += by_outer.get(o, [])
    else:  # dynamic: chunks handed to whichever thread asks next
        chunk = rng.choice([1, 2, 3, 4])
        queue = [outer[i : i + chunk] for i in range(0, n, chunk)]
        for ch in queue:
            t = rng.randrange(T)
            for o in ch:
                threads[t] += by_outer.get(o, [])
    # interleave: repeatedly pick a runnable thread and let it execute `burst` cells
    pos = [0] * T
    live = [t for t in range(T) if threads[t]]
    out = []
    burst = max(1, int(sched.get("burst", 1)))
    while live:
        t = live[rng.randrange(len(live))]
        take = threads[t][pos[t] : pos[t] + burst]
        out += take
        pos[t] += len(take)
        if pos[t] >= len(threads[t]):
            live.remove(t)
    return out


def analyse_races(R, W, cells):
    """Per-launch hazard detector on the sequential execution's access sets.

    Returns (cross-cell conflicts, write-write overlaps, intra-cell aliasing hazards).
    Addresses are global element addresses, so aliasing arguments are seen as the same memory.
      * cross-cell: some cell reads an address that a different cell writes;
      * intra-cell aliasing: a cell reads, through one parameter, an address it has already
        written through a *different* parameter (output memory passed also as a differently
        indexed input) - schedule independent, but exactly the aliasing the property excludes.
    """
    writer = {}
    ww = 0
    for ci, ws in enumerate(W):
        for _seq, a, _pid in ws:
            if a in writer and writer[a] != ci:
                ww += 1
            writer[a] = ci
    conflicts = []
    intra = []
    for cj, rs in enumerate(R):
        own = None
        for seq_r, a, pid_r in rs:
            ci = writer.get(a)
            if ci is None:
                continue
            if ci != cj:
                if len(conflicts) < 5:
                    conflicts.append((cells[ci], cells[cj], a))
            else:
                if own is None:
                    own = {}
                    for seq_w, aw, pid_w in W[cj]:
                        own.setdefault(aw, []).append((seq_w, pid_w))
                for seq_w, pid_w in own.get(a, ()):
                    if seq_w < seq_r and pid_w != pid_r and len(intra) < 5:
                        intra.append((cells[cj], a, pid_w, pid_r))
    return conflicts, ww, intra
