"""Seams: every source of nondeterminism SophT touches goes through here.

Install order (see DESIGN.md section 2):
  env vars -> sys.path (tree under test) -> pystencils compat
  -> create_kernel / compile hook -> pyfftw planner hook -> import sopht.

Nothing in this module edits /repo; everything is a monkeypatch of a third-party
entry point that sopht reaches through a module attribute.
"""

from __future__ import annotations

import hashlib
import os
import sys
import warnings

VERIF_ROOT = os.path.dirname(os.path.dirname(os.path.abspath(__file__)))
CACHE_ROOT = os.environ.get("VERIF_CACHE", os.path.join(VERIF_ROOT, ".cache"))

_installed = False
STATS = {
    "kernels_created": 0,
    "kernels_compiled": 0,
    "kernel_memo_hits": 0,
    "fftw_plans": 0,
    "fftw_planner_flags_rewritten": 0,
}

# filled by install(); C15 replaces `kernel_factory` to return simulated kernels
_kernel_memo: dict = {}
kernel_factory = None  # callable(kernel) -> callable or None
created_kernels: list = []  # (kernel, wrapper) pairs, for inventory


def setup_env() -> None:
    """Environment that must be fixed before numpy / numba / pystencils load."""
    os.environ.setdefault("OMP_NUM_THREADS", "1")
    os.environ.setdefault("OPENBLAS_NUM_THREADS", "1")
    os.environ.setdefault("MKL_NUM_THREADS", "1")
    os.environ.setdefault("NUMBA_NUM_THREADS", "1")
    os.environ["XDG_CACHE_HOME"] = os.path.join(CACHE_ROOT, "xdg")
    os.environ["NUMBA_CACHE_DIR"] = os.path.join(CACHE_ROOT, "numba")
    os.makedirs(os.environ["XDG_CACHE_HOME"], exist_ok=True)
    os.makedirs(os.environ["NUMBA_CACHE_DIR"], exist_ok=True)


def reexec_with_fixed_hashseed() -> None:
    """One seed = one execution: pin PYTHONHASHSEED by re-exec'ing once."""
    want = os.environ.get("VERIF_HASHSEED", "0")
    if os.environ.get("PYTHONHASHSEED") != want:
        os.environ["PYTHONHASHSEED"] = want
        setup_env()
        os.execv(sys.executable, [sys.executable, *sys.argv])


def repo_root() -> str:
    return os.environ.get("VERIF_REPO", "/repo")


def _install_pystencils_compat() -> None:
    import pystencils as ps

    if getattr(ps.CreateKernelConfig, "_verif_compat", False):
        return
    orig = ps.CreateKernelConfig

    def create_kernel_config_compat(*args, **kwargs):
        # pystencils 2.0 dropped `default_number_float`; sopht passes it with
        # the same value as `data_type`. Drop it (environment mismatch, not a
        # property of sopht); everything else is forwarded untouched.
        dnf = kwargs.pop("default_number_float", None)
        if dnf is not None and kwargs.get("data_type") is None:
            kwargs["data_type"] = dnf
        with warnings.catch_warnings():
            warnings.simplefilter("ignore")
            return orig(*args, **kwargs)

    create_kernel_config_compat._verif_compat = True  # type: ignore[attr-defined]
    create_kernel_config_compat._orig = orig  # type: ignore[attr-defined]
    ps.CreateKernelConfig = create_kernel_config_compat


def _kernel_key(kernel) -> str:
    code = kernel.get_c_code()
    return hashlib.sha256(code.encode()).hexdigest()


def _install_kernel_hook() -> None:
    import pystencils as ps
    from pystencils.codegen.kernel import Kernel

    if getattr(Kernel.compile, "_verif_hook", False):
        return
    orig_compile = Kernel.compile
    orig_create = ps.create_kernel

    def create_kernel(*args, **kwargs):
        with warnings.catch_warnings():
            warnings.simplefilter("ignore")
            k = orig_create(*args, **kwargs)
        STATS["kernels_created"] += 1
        return k

    def compile_hook(self):
        if kernel_factory is not None:
            w = kernel_factory(self)
            if w is not None:
                created_kernels.append((self, w))
                return w
        key = _kernel_key(self)
        w = _kernel_memo.get(key)
        if w is None:
            w = orig_compile(self)
            _kernel_memo[key] = w
            STATS["kernels_compiled"] += 1
        else:
            STATS["kernel_memo_hits"] += 1
        created_kernels.append((self, w))
        return w

    compile_hook._verif_hook = True  # type: ignore[attr-defined]
    compile_hook._orig = orig_compile  # type: ignore[attr-defined]
    Kernel.compile = compile_hook
    ps.create_kernel = create_kernel
    ps.create_kernel._orig = orig_create  # type: ignore[attr-defined]


def _install_pyfftw_hook() -> None:
    """FFTW_MEASURE picks a plan by wall-clock timing; pin it to ESTIMATE."""
    import pyfftw
    import pyfftw.builders._utils as bu

    if getattr(pyfftw.FFTW, "_verif_hook", False):
        return
    orig = pyfftw.FFTW

    class DeterministicFFTW(orig):  # type: ignore[misc,valid-type]
        _verif_hook = True

        _ARGNAMES = (
            "input_array",
            "output_array",
            "axes",
            "direction",
            "flags",
            "threads",
            "planning_timelimit",
            "normalise_idft",
            "ortho",
        )

        def __new__(cls, *args, **kwargs):
            for name, val in zip(cls._ARGNAMES, args, strict=False):
                kwargs[name] = val
            args = ()
            flags = kwargs.get("flags", None)
            if flags is not None:
                new = tuple(
                    "FFTW_ESTIMATE" if f in ("FFTW_MEASURE", "FFTW_PATIENT", "FFTW_EXHAUSTIVE") else f
                    for f in flags
                )
                if new != tuple(flags):
                    STATS["fftw_planner_flags_rewritten"] += 1
                kwargs["flags"] = new
            if os.environ.get("VERIF_FFTW_THREADS", "1") == "1":
                kwargs["threads"] = 1
            STATS["fftw_plans"] += 1
            return orig.__new__(cls, *args, **kwargs)

        def __init__(self, *args, **kwargs):
            # cython class: __cinit__ consumed the args
            pass

    try:
        pyfftw.FFTW = DeterministicFFTW
        bu.pyfftw.FFTW = DeterministicFFTW
    except Exception:  # pragma: no cover
        pass
    # builders default to FFTW_MEASURE through planner_effort config
    try:
        pyfftw.config.PLANNER_EFFORT = "FFTW_ESTIMATE"
        pyfftw.config.NUM_THREADS = 1
    except Exception:  # pragma: no cover
        pass


def _install_numba_cache_lock() -> None:
    """numba's on-disk cache is not safe against concurrent writers of *different* closures of one
    function: IndexDataCacheFile.save() loads the index, picks the first free data-file number and
    writes index and data without any lock, so two processes can hand the same data file to two
    different keys - a later load then runs the wrong specialisation (seen here as a kernel compiled
    for 600 markers being loaded for 3).  The harness runs many processes: serialise save()."""
    import fcntl

    import numba.core.caching as nc

    if getattr(nc.IndexDataCacheFile.save, "_verif_locked", False):
        return
    orig_save = nc.IndexDataCacheFile.save

    def locked_save(self, key, data):
        lock_path = self._index_path + ".lock"
        with open(lock_path, "a+b") as lk:
            fcntl.flock(lk, fcntl.LOCK_EX)
            try:
                return orig_save(self, key, data)
            finally:
                fcntl.flock(lk, fcntl.LOCK_UN)

    locked_save._verif_locked = True  # type: ignore[attr-defined]
    nc.IndexDataCacheFile.save = locked_save


def install(import_sopht: bool = True):
    """Install all seams (idempotent) and import sopht from the tree under test."""
    global _installed
    setup_env()
    root = repo_root()
    if sys.path[0] != root:
        sys.path.insert(0, root)
    if not _installed:
        import logging

        logging.disable(logging.WARNING)
        warnings.filterwarnings("ignore")
        _install_pystencils_compat()
        _install_kernel_hook()
        _install_pyfftw_hook()
        _install_numba_cache_lock()
        _installed = True
    if import_sopht:
        import sopht  # noqa: F401

        got = os.path.dirname(os.path.dirname(os.path.abspath(sopht.__file__)))
        if os.path.realpath(got) != os.path.realpath(root):
            raise RuntimeError(f"sopht imported from {got}, expected {root}")
        return sopht
    return None
